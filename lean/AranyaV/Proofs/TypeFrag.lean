import AranyaV.Proofs.TypeBase
namespace AranyaV.Lang
open AranyaV.Gen.Lang

/-! ## the fragment covered by `typecheck_sound_partial` -/

/-- the last arm is the default arm (`_ =>`) -/
def endsDefaultE : List (Pat × Expr) → Bool
  | [] => false
  | [(.default, _)] => true
  | _ :: rest => endsDefaultE rest
def endsDefaultS : List (Pat × List Stmt) → Bool
  | [] => false
  | [(.default, _)] => true
  | _ :: rest => endsDefaultS rest
def endsDefaultP : List Pat → Bool
  | [] => false
  | [.default] => true
  | _ :: rest => endsDefaultP rest

def hasNonePat : Pat → Bool
  | .values vs => vs.any (fun v => match v with | .none => true | _ => false)
  | .default => false
def hasBindPat (w : WrapType) : Pat → Bool
  | .values vs => vs.any (fun v => match bindingOf v with | some (w', _) => w' == w | none => false)
  | .default => false

/-- a syntactic guarantee that some arm is selected: a trailing default arm, or `None` and
`Some(x)` arms, or `Ok(x)` and `Err(y)` arms -/
def patsTotal (pats : List Pat) : Bool :=
  endsDefaultP pats || (pats.any hasNonePat && pats.any (hasBindPat .Some)) ||
    (pats.any (hasBindPat .Ok) && pats.any (hasBindPat .Err))

/-- all pattern values of a match, in source order (what `scanPats` collects in `Scan.all`) -/
def flattenPats : List Pat → List Expr
  | [] => []
  | .default :: r => flattenPats r
  | .values vs :: r => vs ++ flattenPats r

def flatLit : Expr → Bool
  | .bool _ | .enumRef _ _ _ => true
  | _ => false
def flatPat : Pat → Bool
  | .values vs => vs.all flatLit
  | .default => false
/-- no default arm, at least one arm, every pattern is `true` / `false` or an enum variant: that
some arm is selected is what the compiler's exhaustiveness check (`missingDefault`, by counting the
distinct patterns against the cardinality of the scrutinee type) guarantees -/
def patsFlat (pats : List Pat) : Bool := pats.all flatPat && !(flattenPats pats).isEmpty

/-- literal patterns without bindings, numbers, strings or structs -/
def shLit : Expr → Bool
  | .bool _ | .enumRef _ _ _ | .none => true
  | .some e | .ok e | .err e => shLit e
  | _ => false

def shPat : Pat → Bool
  | .values vs => vs.all shLit
  | .default => false

/-- every pattern is built from `true`/`false`, enum variants, `None`, `Some(..)`, `Ok(..)`, `Err(..)`; no
default arm, no binding: that some arm is selected is what the compiler's exhaustiveness check
(`missingDefault`) guarantees, by counting -/
def patsSh (pats : List Pat) : Bool := pats.all shPat

/-- the value of a (lowered) literal pattern without struct parts -/
def litVal : Expr → Option Val
  | .unit => some .unit
  | .int i => some (.int i)
  | .str s => some (.str s)
  | .bool b => some (.bool b)
  | .enumRef n _ v => some (.enum n v)
  | .none => some .none
  | .some e => (litVal e).map .some
  | .ok e => (litVal e).map .ok
  | .err e => (litVal e).map .err
  | _ => none

mutual
def fragE : Expr → Bool
  | .unit | .int _ | .str _ | .bool _ | .none | .todo | .var _ | .enumRef _ _ _ => true
  | .some e | .ok e | .err e | .not e | .ret e => fragE e
  | .is e _ => fragE e
  | .and a b | .or a b | .coalesce a b => fragE a && fragE b
  | .eq a b | .ne a b | .gt a b | .lt a b | .ge a b | .le a b => fragE a && fragE b
  | .ite c t f => fragE c && fragE t && fragE f
  | .call _ args => fragArgs args
  | .ffi _ _ _ args => fragArgs args
  | .struct _ fields _ => fragFields fields
  | .dot e _ => fragE e
  | .substruct e _ => fragE e
  | .cast e _ => fragE e
  | .block ss e => fragSs ss && fragE e
  | .mtch scrut arms => fragE scrut && fragArmsE arms && (patsTotal (patsOfE arms) || patsFlat (patsOfE arms) || patsSh (patsOfE arms))
def fragPat : Pat → Bool
  | .default => true
  | .values vs => fragArgs vs && (decide (vs.length ≤ 1) || vs.all (fun v => (bindingOf v).isNone))
def fragArmsE : List (Pat × Expr) → Bool
  | [] => true
  | (pt, e) :: rest => fragPat pt && fragE e && fragArmsE rest
def fragArmsS : List (Pat × List Stmt) → Bool
  | [] => true
  | (pt, ss) :: rest => fragPat pt && fragSs ss && fragArmsS rest
def fragArgs : List Expr → Bool
  | [] => true
  | e :: es => fragE e && fragArgs es
def fragFields : List (Nat × Expr) → Bool
  | [] => true
  | (_, e) :: rest => fragE e && fragFields rest
def fragS : Stmt → Bool
  | .let_ _ e => fragE e
  | .check c els => fragE c && fragE els
  | .ifS brs _ els => fragBrs brs && fragSs els
  | .ret e => fragE e
  | .dassert e => fragE e
  | .mtch scrut arms => fragE scrut && fragArmsS arms && (patsTotal (patsOfS arms) || patsFlat (patsOfS arms) || patsSh (patsOfS arms))
def fragSs : List Stmt → Bool
  | [] => true
  | s :: ss => fragS s && fragSs ss
def fragBrs : List (Expr × List Stmt) → Bool
  | [] => true
  | (c, ss) :: rest => fragE c && fragSs ss && fragBrs rest
end

def LCtx.withRet (cx : LCtx) (rt : Ty) : LCtx := { cx with retTy := rt }

theorem GOk.withRet {cx : LCtx} {p : Program} (h : GOk cx p) (rt : Ty) : GOk (cx.withRet rt) p := ⟨h.eq, h.fit⟩

/-- outcome predicate: never stuck; values satisfy `P`, early returns satisfy `Q` -/
def ROk {α : Type} (P : α → Prop) (Q : Val → Prop) : Res α → Prop
  | .val a _ => P a
  | .ret v _ => Q v
  | .stuck => False
  | _ => True

def ArgsFit (p : Program) : List Val → List Ty → Prop
  | [], [] => True
  | v :: vs, t :: ts => Fit p v t ∧ ArgsFit p vs ts
  | _, _ => False

/-- a lowered function of the fragment -/
def FunOk (cx : LCtx) (fd : FunDef) : Prop :=
  fd.ret.neverFree = true ∧ (∀ q ∈ fd.params, q.2.neverFree = true) ∧
  ∃ sc0 body0 sc1,
    fd.params.reverse.foldl (fun acc (q : Nat × Ty) => acc.bind (fun s => scopeAdd cx s q.1 q.2)) (some [[]]) = some sc0 ∧
    lowerStmts (cx.withRet fd.ret) sc0 body0 = some (fd.body, sc1) ∧ fragSs body0 = true

structure Ctx (cx : LCtx) (p : Program) : Prop where
  hG : GOk cx p
  /-- contract of the foreign functions: on arguments fitting the declared parameter types they
  do not report a conversion failure, and what they return fits the declared return type -/
  hffi : ∀ mi pi m fns (sig : FfiSig), cx.ffiMods[mi]? = some (m, fns) → fns[pi]? = some sig →
    (∀ t ∈ sig.args, t.neverFree = true) ∧
    ∀ vs, ArgsFit p vs sig.args → (match p.ffi mi pi vs with
      | .bad => False
      | .ret v => Fit p v sig.ret
      | .fail => True)
  /-- the struct definitions the lowering pass consults are the program's -/
  hS : ∀ n d, cx.structDef n = some d → p.structDef n = some d
  hSnf : ∀ n d, p.structDef n = some d → ∀ q ∈ d, q.2.neverFree = true
  hSnd : ∀ n d, p.structDef n = some d → (d.map (·.1)).Nodup
  hbuiltin : ∀ f, isBuiltin f = true → cx.sigs.find? (·.1 == f) = builtinSigs.find? (·.1 == f)
  hcall : ∀ f g params rt, isBuiltin f = false → cx.sigs.find? (·.1 == f) = some (g, params, rt) →
    ∃ fd, p.funDef f = some fd ∧ fd.params = params ∧ fd.ret = rt ∧ FunOk cx fd
  /-- the enum definitions the lowering pass consults are the program's; variants are distinct -/
  hE : cx.enums = p.enums
  hEnd : ∀ q ∈ p.enums, q.2.Nodup

abbrev FitV (p : Program) (t : Ty) : Val → Prop := fun v => Fit p v t

/-- the patterns of a match, lowered left to right with the scrutinee type being refined -/
inductive PatsLow (cx : LCtx) (sc : Scopes) : Ty → List Pat → List Pat → Ty → Prop where
  | nil (st : Ty) : PatsLow cx sc st [] [] st
  | cons {st st' stF : Ty} {pat pat' : Pat} {bs : List (Nat × Ty)} {rest rest' : List Pat} :
      lowerPat cx sc st pat = some (st', pat', bs) → fragPat pat = true → PatsLow cx sc st' rest rest' stF →
      PatsLow cx sc st (pat :: rest) (pat' :: rest') stF

/-- the selected arm's binding pattern (if it has one) matches the scrutinee's wrapper -/
def BindOk (v : Val) : Pat → Prop
  | .default => True
  | .values vs => ∀ w x, firstBinding vs = some (w, x) → isWrap w v = true

/-- arm `pat` is certainly selected for `v` (if no earlier arm is) -/
def ArmHits (v : Val) : Pat → Prop
  | .default => True
  | .values vs => (∃ pe w x, pe ∈ vs ∧ bindingOf pe = some (w, x) ∧ isWrap w v = true) ∨
    (∃ pe lit, pe ∈ vs ∧ litVal pe = some lit ∧ v.beq lit = true)
def Total (v : Val) (pats : List Pat) : Prop := ∃ pat ∈ pats, ArmHits v pat

/-- invariant of the struct under construction: conforming values inside, and every field that is
set and declared fits its declared type -/
def FldInv (p : Program) (d : List (Nat × Ty)) (afs : List (Nat × Val)) : Prop :=
  wfFields p afs ∧ ∀ k v, getField afs k = some v → ∀ q, d.find? (·.1 == k) = some q → v.fitsType q.2 = true

structure Snd (cx : LCtx) (p : Program) (n : Nat) : Prop where
  e : ∀ rt sc e e' t env log, fragE e = true → lowerExpr (cx.withRet rt) sc e = some (e', t) → rt.neverFree = true →
    EnvOk p sc env → ROk (FitV p t) (FitV p rt) (evalExpr p n env log e')
  args : ∀ rt sc pts es es' env log, fragArgs es = true → pts.length = es.length →
    lowerArgs (cx.withRet rt) sc pts es = some es' → (∀ t ∈ pts, t.neverFree = true) → rt.neverFree = true →
    EnvOk p sc env → ROk (fun vs => ArgsFit p vs pts) (FitV p rt) (evalArgs p n env log es')
  ss : ∀ rt sc ss ss' sc' env log, fragSs ss = true → lowerStmts (cx.withRet rt) sc ss = some (ss', sc') → rt.neverFree = true →
    EnvOk p sc env → ROk (fun env' => EnvOk p sc' env') (FitV p rt) (evalStmts p n env log ss')
  s : ∀ rt sc s s' sc' env log, fragS s = true → lowerStmt (cx.withRet rt) sc s = some (s', sc') → rt.neverFree = true →
    EnvOk p sc env → ROk (fun env' => EnvOk p sc' env') (FitV p rt) (evalStmt p n env log s')
  scp : ∀ rt sc ss ss' sc' env log, fragSs ss = true → lowerStmts (cx.withRet rt) ([] :: sc) ss = some (ss', sc') → rt.neverFree = true →
    EnvOk p sc env → ROk (fun env' => EnvOk p sc env') (FitV p rt) (evalScoped p n env log ss')
  br : ∀ rt sc brs brs' (hasElse : Bool) els els' env log, fragBrs brs = true → fragSs els = true →
    lowerBranches (cx.withRet rt) sc brs = some brs' →
    (hasElse = true → ∃ scE, lowerStmts (cx.withRet rt) ([] :: sc) els = some (els', scE)) → rt.neverFree = true →
    EnvOk p sc env → ROk (fun env' => EnvOk p sc env') (FitV p rt) (evalBranches p n env log brs' hasElse els')
  flds : ∀ rt sc d fs fs' env log name afs, fragFields fs = true → lowerFields (cx.withRet rt) sc d fs = some fs' →
    (∀ q ∈ d, q.2.neverFree = true) → rt.neverFree = true → EnvOk p sc env → FldInv p d afs →
    ROk (fun v => ∃ fsF, v = .struct name fsF ∧ FldInv p d fsF ∧
        ∀ k, ((getField afs k).isSome = true ∨ k ∈ fs'.map (·.1)) → (getField fsF k).isSome = true) (FitV p rt)
      (evalFields p n env log d fs' (.struct name afs))
  mv : ∀ rt sc st vs stF vs' bs env log v, fragArgs vs = true → lowerPatValsE (cx.withRet rt) sc st vs = some (stF, vs', bs) →
    rt.neverFree = true → EnvOk p sc env → ROk (fun (_ : Bool) => True) (FitV p rt) (matchVals p n env log v vs')
  sel : ∀ rt sc st stF pats pats' env log v k, PatsLow (cx.withRet rt) sc st pats pats' stF → Total v pats' →
    rt.neverFree = true → EnvOk p sc env →
    ROk (fun j => ∃ i pat, j = k + i ∧ pats'[i]? = some pat ∧ BindOk v pat) (FitV p rt) (selectArm p n env log v pats' k)
  call : ∀ f fd vs log, p.funDef f = some fd → FunOk cx fd → ArgsFit p vs (fd.params.map (·.2)) →
    ROk (FitV p fd.ret) (fun _ => False) (evalCall p n f vs log)

theorem snd_zero (cx : LCtx) (p : Program) : Snd cx p 0 := by
  constructor <;> intros <;> simp [evalExpr, evalArgs, evalStmts, evalStmt, evalScoped, evalBranches, evalCall, evalFields, matchVals, selectArm, ROk]

end AranyaV.Lang
