import AranyaV.Model.Text
/-! Helper lemmas for C32 (`Text` / `Identifier`). -/
namespace AranyaV.Text
open AranyaV.Gen.Text

/-! ## `Text::validate` -/

theorem nulPos_none_iff (s : List UInt8) (i : Nat) : nulPos s i = none ↔ (0 : UInt8) ∉ s := by
  induction s generalizing i with
  | nil => simp [nulPos]
  | cons b bs ih =>
    simp only [nulPos]
    by_cases hb : b = 0
    · simp [hb]
    · simp only [hb, if_false, ih, List.mem_cons, not_or]
      exact ⟨fun h => ⟨fun e => hb e.symm, h⟩, fun h => h.2⟩

/-- the reported index is that of the first NUL -/
theorem nulPos_some (s : List UInt8) (i j : Nat) (h : nulPos s i = some j) :
    i ≤ j ∧ s[j - i]? = some 0 ∧ ∀ k, k < j - i → s[k]? ≠ some 0 := by
  induction s generalizing i with
  | nil => simp [nulPos] at h
  | cons b bs ih =>
    simp only [nulPos] at h
    by_cases hb : b = 0
    · simp only [hb, if_true, Option.some.injEq] at h
      subst h; subst hb
      simp
    · simp only [hb, if_false] at h
      obtain ⟨h1, h2, h3⟩ := ih (i + 1) h
      have e : j - i = (j - (i + 1)) + 1 := by omega
      refine ⟨by omega, ?_, ?_⟩
      · rw [e]; simpa using h2
      · intro k hk
        cases k with
        | zero => simp [hb]
        | succ k => simpa using h3 k (by omega)

theorem validateText_ok_iff (s : List UInt8) : validateText s = .ok () ↔ (0 : UInt8) ∉ s := by
  unfold validateText
  cases h : nulPos s 0 with
  | none => simp [(nulPos_none_iff s 0).mp h]
  | some i =>
    have : ¬ ((0 : UInt8) ∉ s) := fun hn => by
      rw [(nulPos_none_iff s 0).mpr hn] at h; cases h
    simp [this]

theorem validateText_err (s : List UInt8) (e : TextErr) (h : validateText s = .error e) :
    ∃ i, e = .containsNul i ∧ s[i]? = some 0 ∧ ∀ k, k < i → s[k]? ≠ some 0 := by
  unfold validateText at h
  cases hp : nulPos s 0 with
  | none => simp [hp] at h
  | some i =>
    simp only [hp] at h
    injection h with h
    have := nulPos_some s 0 i hp
    exact ⟨i, h.symm, by simpa using this.2.1, by simpa using this.2.2⟩

/-! ## `Identifier::validate` -/

/-- `[a-zA-Z][a-zA-Z0-9_]*` -/
def IdentOK (s : List UInt8) : Prop :=
  ∃ b rest, s = b :: rest ∧ isAlpha b = true ∧ ∀ c ∈ rest, tailOk c = true

theorem badTail_none_iff (s : List UInt8) (i : Nat) :
    badTail s i = none ↔ ∀ c ∈ s, tailOk c = true := by
  induction s generalizing i with
  | nil => simp [badTail]
  | cons b bs ih =>
    simp only [badTail]
    by_cases hb : tailOk b = true
    · simp [hb, ih]
    · simp [hb]

theorem badTail_some (s : List UInt8) (i j : Nat) (h : badTail s i = some j) :
    i ≤ j ∧ (∃ c, s[j - i]? = some c ∧ tailOk c = false) ∧
      ∀ k c, k < j - i → s[k]? = some c → tailOk c = true := by
  induction s generalizing i with
  | nil => simp [badTail] at h
  | cons b bs ih =>
    simp only [badTail] at h
    by_cases hb : tailOk b = true
    · simp only [hb, if_true] at h
      obtain ⟨h1, ⟨c, h2, h2'⟩, h3⟩ := ih (i + 1) h
      have e : j - i = (j - (i + 1)) + 1 := by omega
      refine ⟨by omega, ⟨c, ?_, h2'⟩, ?_⟩
      · rw [e]; simpa using h2
      · intro k c' hk hc
        cases k with
        | zero => simp at hc; subst hc; exact hb
        | succ k => exact h3 k c' (by omega) (by simpa using hc)
    · simp only [hb] at h
      simp only [Bool.false_eq_true, if_false, Option.some.injEq] at h
      subst h
      exact ⟨Nat.le_refl _, ⟨b, by simp, by simpa using hb⟩, by intro k c hk; omega⟩

theorem validateIdent_ok_iff (s : List UInt8) : validateIdent s = .ok () ↔ IdentOK s := by
  unfold validateIdent IdentOK
  cases s with
  | nil => simp
  | cons b rest =>
    by_cases hb : isAlpha b = true
    · simp only [hb, Bool.not_true, Bool.false_eq_true, if_false]
      cases ht : badTail rest 1 with
      | none =>
        have := (badTail_none_iff rest 1).mp ht
        simp only [true_iff]
        exact ⟨b, rest, rfl, hb, this⟩
      | some i =>
        simp only [false_iff, reduceCtorEq]
        rintro ⟨b', rest', e, _, hall⟩
        cases e
        rw [(badTail_none_iff rest 1).mpr hall] at ht
        cases ht
    · simp only [hb, Bool.not_false, if_true, false_iff, reduceCtorEq]
      rintro ⟨b', rest', e, hb', _⟩
      cases e
      exact hb hb'

theorem isAlpha_ne_zero : ∀ n, n < 256 → isAlpha (UInt8.ofNat n) = true → 65 ≤ n ∧ n < 128 := by
  decide +kernel

theorem tailOk_range : ∀ n, n < 256 → tailOk (UInt8.ofNat n) = true → 48 ≤ n ∧ n < 128 := by
  decide +kernel

theorem isAlpha_bounds (b : UInt8) (h : isAlpha b = true) : 65 ≤ b.toNat ∧ b.toNat < 128 := by
  have := isAlpha_ne_zero b.toNat b.toNat_lt (by simpa using h)
  exact this

theorem tailOk_bounds (b : UInt8) (h : tailOk b = true) : 48 ≤ b.toNat ∧ b.toNat < 128 := by
  have := tailOk_range b.toNat b.toNat_lt (by simpa using h)
  exact this

/-- every byte of an identifier is a non-NUL ASCII byte -/
theorem IdentOK.bytes {s : List UInt8} (h : IdentOK s) : ∀ c ∈ s, 48 ≤ c.toNat ∧ c.toNat < 128 := by
  obtain ⟨b, rest, rfl, hb, hall⟩ := h
  intro c hc
  simp only [List.mem_cons] at hc
  rcases hc with rfl | hc
  · have := isAlpha_bounds c hb; omega
  · exact tailOk_bounds c (hall c hc)

theorem IdentOK.noNul {s : List UInt8} (h : IdentOK s) : (0 : UInt8) ∉ s := by
  intro h0
  have := (h.bytes 0 h0).1
  exact absurd this (by decide)

/-! ## UTF-8 -/

theorem utf8Valid_ascii (s : List UInt8) (h : ∀ c ∈ s, c.toNat < 128) : utf8Valid s = true := by
  induction s with
  | nil => rfl
  | cons b bs ih =>
    have hb : b ≤ 0x7F := by
      have := h b (by simp)
      rw [UInt8.le_iff_toNat_le]
      have : (0x7F : UInt8).toNat = 127 := by decide
      omega
    unfold utf8Valid
    simp only [hb, ↓reduceIte]
    exact ih (fun c hc => h c (by simp [hc]))

/-- the validator, unfolded one step -/
theorem utf8Valid_cons (b0 : UInt8) (rest : List UInt8) :
    utf8Valid (b0 :: rest) =
      if b0 ≤ 0x7F then utf8Valid rest
      else if 0xC2 ≤ b0 && b0 ≤ 0xDF then
        match rest with
        | b1 :: r => cont b1 && utf8Valid r
        | _ => false
      else if 0xE0 ≤ b0 && b0 ≤ 0xEF then
        match rest with
        | b1 :: b2 :: r => second3 b0 b1 && cont b2 && utf8Valid r
        | _ => false
      else if 0xF0 ≤ b0 && b0 ≤ 0xF4 then
        match rest with
        | b1 :: b2 :: b3 :: r => second4 b0 b1 && cont b2 && cont b3 && utf8Valid r
        | _ => false
      else false := by
  conv => lhs; unfold utf8Valid
  rfl

theorem utf8Valid_append (a b : List UInt8) (h : utf8Valid a = true) :
    utf8Valid (a ++ b) = utf8Valid b := by
  fun_induction utf8Valid a with
  | case1 => simp
  | case2 b0 rest h0 ih =>
    rw [List.cons_append, utf8Valid_cons]; simp only [h0, ↓reduceIte]
    exact ih h
  | case3 b0 h0 h1 b1 r ih =>
    simp only [Bool.and_eq_true] at h
    rw [List.cons_append, List.cons_append, utf8Valid_cons]; simp only [h0, h1, ↓reduceIte]
    simp [h.1, ih h.2]
  | case4 => simp at h
  | case5 b0 h0 h1 h2 b1 b2 r ih =>
    simp only [Bool.and_eq_true] at h
    rw [List.cons_append, List.cons_append, List.cons_append, utf8Valid_cons]; simp only [h0, h1, h2, ↓reduceIte]
    simp [h.1.1, h.1.2, ih h.2]
  | case6 => simp at h
  | case7 b0 h0 h1 h2 h3 b1 b2 b3 r ih =>
    simp only [Bool.and_eq_true] at h
    rw [List.cons_append, List.cons_append, List.cons_append, List.cons_append, utf8Valid_cons]; simp only [h0, h1, h2, h3, ↓reduceIte]
    simp [h.1.1.1, h.1.1.2, h.1.2, ih h.2]
  | case8 => simp at h
  | case9 => simp at h
/-! ## `Repr` -/

theorem repr_content_aux (hmax : maxInline < 2 ^ inlineLenBits) (s : List UInt8) :
    (Repr.fromStr s).asStr = s := by
  unfold Repr.fromStr
  split
  · rename_i h
    have : s.length % 2 ^ inlineLenBits = s.length := Nat.mod_eq_of_lt (by omega)
    simp only [Repr.asStr, this]
    simp
  · rfl

theorem maxInline_fits : maxInline < 2 ^ inlineLenBits := by decide

/-! ## comparison -/

theorem cmpBytes_eq_iff (a b : List UInt8) : cmpBytes a b = .eq ↔ a = b := by
  induction a generalizing b with
  | nil => cases b <;> simp [cmpBytes]
  | cons x xs ih =>
    cases b with
    | nil => simp [cmpBytes]
    | cons y ys =>
      simp only [cmpBytes]
      by_cases h1 : x < y
      · simp only [h1, if_true]
        have : x ≠ y := by intro e; subst e; exact absurd h1 (by simp)
        simp [this]
      · by_cases h2 : y < x
        · simp only [h1, h2, if_true, if_false]
          have : x ≠ y := by intro e; subst e; exact absurd h2 (by simp)
          simp [this]
        · simp only [h1, h2, if_false, ih]
          have : x = y := by
            apply UInt8.toNat_inj.mp
            rw [UInt8.lt_iff_toNat_lt] at h1 h2
            omega
          simp [this]

theorem cmpBytes_swap (a b : List UInt8) : cmpBytes b a = (cmpBytes a b).swap := by
  induction a generalizing b with
  | nil => cases b <;> simp [cmpBytes, Ordering.swap]
  | cons x xs ih =>
    cases b with
    | nil => simp [cmpBytes, Ordering.swap]
    | cons y ys =>
      simp only [cmpBytes]
      by_cases h1 : x < y
      · have h2 : ¬ y < x := by rw [UInt8.lt_iff_toNat_lt] at h1 ⊢; omega
        simp [h1, h2, Ordering.swap]
      · by_cases h2 : y < x
        · simp [h1, h2, Ordering.swap]
        · simp [h1, h2, ih]

end AranyaV.Text
