import AranyaV.Model.FactOps
import AranyaV.Proofs.FactKey
/-! Helper lemmas for the fact-store model (C29): list lemmas that do not depend on the codec. -/
namespace AranyaV.FactOps
open AranyaV.FactKey

theorem keysPrefix_refl (k : List Key) : keysPrefix k k = true := by
  induction k with
  | nil => rfl
  | cons a as ih => simp [keysPrefix, ih]

/-- a prefix of full length is equality -/
theorem keysPrefix_eq_of_length : ∀ (q k : List Key), q.length = k.length →
    (keysPrefix q k = true ↔ q = k)
  | [], [], _ => by simp [keysPrefix]
  | [], _ :: _, h => by simp at h
  | _ :: _, [], h => by simp at h
  | a :: q, b :: k, h => by
    have ih := keysPrefix_eq_of_length q k (by simpa using h)
    simp [keysPrefix, ih]

theorem find?_filter_imp {α : Type} (p r : α → Bool) (h : ∀ x, p x = true → r x = true) (l : List α) :
    (l.filter r).find? p = l.find? p := by
  induction l with
  | nil => rfl
  | cons x xs ih =>
    by_cases hr : r x = true
    · simp only [List.filter_cons, hr, if_true, List.find?_cons]
      cases hp : p x <;> simp [ih]
    · have hp : p x = false := by
        cases hp : p x
        · rfl
        · exact absurd (h x hp) hr
      simp [List.filter_cons, hr, List.find?_cons, hp, ih]

theorem filter_filter_imp {α : Type} (p r : α → Bool) (h : ∀ x, p x = true → r x = true) (l : List α) :
    (l.filter r).filter p = l.filter p := by
  rw [List.filter_filter]
  congr 1
  funext x
  cases hp : p x
  · simp
  · simp [h x hp]

/-- `Query` over a cursor that yields no errors -/
theorem findFirst_ok (q : Query) (l : List Fact) :
    findFirst q (l.map .ok) = .ok (l.find? (factMatch q)) := by
  induction l with
  | nil => rfl
  | cons f fs ih =>
    simp only [List.map_cons, findFirst, List.find?_cons]
    cases h : factMatch q f <;> simp [ih]

/-- `QueryStart`/`QueryNext` over a cursor that yields no errors -/
theorem mapLoop_ok (q : Query) (l : List Fact) :
    mapLoop q (l.map .ok) = .ok (l.filter (factMatch q)) := by
  induction l with
  | nil => rfl
  | cons f fs ih =>
    simp only [List.map_cons, mapLoop, ih, List.filter_cons]

/-- `FactCount(limit)` over a cursor that yields no errors: counts matches, stops at the limit -/
theorem countLoop_ok (q : Query) (limit : Int) (l : List Fact) (c : Int) (hc : c ≤ limit) :
    countLoop q limit c (l.map .ok) = .ok (min limit (c + (l.filter (factMatch q)).length)) := by
  induction l generalizing c with
  | nil => simp [countLoop]; omega
  | cons f fs ih =>
    simp only [List.map_cons, countLoop]
    by_cases hlt : c < limit
    · simp only [hlt, if_true]
      by_cases hm : factMatch q f = true
      · simp only [hm, if_true, List.filter_cons]
        rw [ih (c + 1) (by omega)]
        simp only [List.length_cons]
        congr 2; omega
      · have hm' : factMatch q f = false := by simpa using hm
        simp only [hm', List.filter_cons, Bool.false_eq_true, if_false]
        rw [ih c hc]
    · simp only [hlt, if_false]
      have : c = limit := by omega
      subst this
      congr 1
      have : (0 : Int) ≤ ((List.filter (factMatch q) (f :: fs)).length : Int) := by omega
      omega

end AranyaV.FactOps
