import AranyaV.Proofs.DiskMain
/-!
Reachability (C15): under the caller discipline `WF` (an appended item only refers to offsets
returned by earlier appends; `commit` passes a fact-cache offset returned by an earlier append)
everything reachable from a committed root is a record that ends at or below that root's
`free_offset`.
-/
namespace AranyaV.Disk
open AranyaV.Wire

/-- caller discipline: `known` = offsets returned by earlier `append`s -/
def WF (L : Layout) (ck : Checksum) : Writer → List Nat → List Call → Prop
  | _, _, [] => True
  | w, known, c :: cs =>
    (match c with
     | .append _ refs => ∀ o ∈ refs, o ∈ known
     | .commit _ refs fact => (∀ o ∈ refs, o ∈ known) ∧ fact ∈ known) ∧
    WF L ck (w.step L ck c).1 (w.root.free.toNat :: known) cs

/-- offsets reachable from a root: its head set, its fact cache, and transitively what the
records there refer to -/
inductive Reach (recs : List Rec) (r : Root) : Nat → Prop
  | heads {o : Nat} : r.heads = some o → Reach recs r o
  | fact {o : Nat} : r.fact = some o → Reach recs r o
  | step {o o' : Nat} (rec : Rec) : Reach recs r o → rec ∈ recs → rec.off = o → o' ∈ rec.refs →
      Reach recs r o'

/-- `o` is the offset of a record that ends at or below `F` -/
def Below (recs : List Rec) (F : Int) (o : Nat) : Prop :=
  ∃ rec ∈ recs, rec.off = o ∧ (rec.end_ : Int) ≤ F

theorem Below.mono {recs recs' : List Rec} {F F' : Int} {o : Nat} (h : Below recs F o)
    (hs : ∀ rec ∈ recs, rec ∈ recs') (hF : F ≤ F') : Below recs' F' o := by
  obtain ⟨rec, hm, ho, he⟩ := h
  exact ⟨rec, hs rec hm, ho, by omega⟩

/-- the roots written by the commits of a run -/
def commitRoots (L : Layout) (ck : Checksum) (w : Writer) : List Call → List Root
  | [] => []
  | c :: cs =>
    (match c with
     | .commit _ _ _ => [(w.step L ck c).1.root]
     | .append _ _ => []) ++ commitRoots L ck (w.step L ck c).1 cs

/-- all refs of all records point below the record -/
def RefsBelow (recs : List Rec) : Prop := ∀ rec ∈ recs, ∀ o' ∈ rec.refs, Below recs (rec.off : Int) o'

theorem toRec_end (L : Layout) (ck : Checksum) (w : Writer) (c : Call) (h : 0 ≤ w.root.free) :
    ((c.toRec w).end_ : Int) = (w.step L ck c).1.root.free ∧ ((c.toRec w).off : Int) = w.root.free := by
  rw [step_free, toRec_off]
  refine ⟨?_, by omega⟩
  unfold Rec.end_
  rw [toRec_off]

theorem toRec_refs_known (L : Layout) (ck : Checksum) (w : Writer) (known : List Nat) (c : Call)
    (cs : List Call) (h : WF L ck w known (c :: cs)) : ∀ o ∈ (c.toRec w).refs, o ∈ known := by
  cases c with
  | append b refs => exact h.1
  | commit hd refs fact => exact h.1.1

theorem reach_inv (L : Layout) (ck : Checksum) :
    ∀ (calls : List Call) (w : Writer) (known : List Nat) (pre : List Rec),
      0 ≤ w.root.free → WF L ck w known calls →
      (∀ o ∈ known, Below pre w.root.free o) → RefsBelow pre →
      RefsBelow (pre ++ recsOf L ck w calls) ∧
      ∀ r ∈ commitRoots L ck w calls,
        (∀ o, r.heads = some o → Below (pre ++ recsOf L ck w calls) r.free o) ∧
        (∀ o, r.fact = some o → Below (pre ++ recsOf L ck w calls) r.free o) := by
  intro calls
  induction calls with
  | nil =>
    intro w known pre _ _ _ hrb
    simp only [recsOf, List.append_nil, commitRoots]
    exact ⟨hrb, fun r h => by cases h⟩
  | cons c cs ih =>
    intro w known pre hnn hwf hk hrb
    have hte := toRec_end L ck w c hnn
    have hnn' : 0 ≤ (w.step L ck c).1.root.free := by rw [step_free]; omega
    have hle : w.root.free ≤ (w.step L ck c).1.root.free := by
      rw [← hte.1, ← hte.2]; unfold Rec.end_; omega
    have hsub : ∀ rec ∈ pre, rec ∈ pre ++ [c.toRec w] := fun rec h => List.mem_append_left _ h
    -- the new record refers to known offsets only
    have hk' : ∀ o ∈ w.root.free.toNat :: known, Below (pre ++ [c.toRec w]) (w.step L ck c).1.root.free o := by
      intro o ho
      rcases List.mem_cons.mp ho with rfl | ho
      · exact ⟨c.toRec w, by simp, toRec_off w c, by rw [hte.1]; exact Int.le_refl _⟩
      · exact (hk o ho).mono hsub hle
    have hrb' : RefsBelow (pre ++ [c.toRec w]) := by
      intro rec hrec o' ho'
      rcases List.mem_append.mp hrec with h | h
      · exact (hrb rec h o' ho').mono hsub (Int.le_refl _)
      · simp only [List.mem_singleton] at h
        subst h
        have := hk o' (toRec_refs_known L ck w known c cs hwf o' ho')
        exact this.mono hsub (by rw [hte.2]; exact Int.le_refl _)
    have := ih (w.step L ck c).1 (w.root.free.toNat :: known) (pre ++ [c.toRec w]) hnn' hwf.2 hk' hrb'
    have hassoc : pre ++ [c.toRec w] ++ recsOf L ck (w.step L ck c).1 cs =
        pre ++ recsOf L ck w (c :: cs) := by simp [recsOf]
    rw [hassoc] at this
    refine ⟨this.1, ?_⟩
    intro r hr
    simp only [commitRoots, List.mem_append] at hr
    rcases hr with hr | hr
    · cases c with
      | append b refs => cases hr
      | commit hd refs fact =>
        simp only [List.mem_singleton] at hr
        subst hr
        have hmem : ∀ rec ∈ pre ++ [Call.toRec w (.commit hd refs fact)],
            rec ∈ pre ++ recsOf L ck w (.commit hd refs fact :: cs) := by
          intro rec h; rw [← hassoc]; exact List.mem_append_left _ h
        constructor
        · intro o ho
          simp only [Writer.step, commit_root, commitRoot, Option.some.injEq] at ho
          exact (hk' o (by rw [← ho]; exact List.mem_cons_self)).mono hmem (Int.le_refl _)
        · intro o ho
          simp only [Writer.step, commit_root, commitRoot, Option.some.injEq] at ho
          exact (hk' o (by rw [← ho]; exact List.mem_cons_of_mem _ hwf.1.2)).mono hmem (Int.le_refl _)
    · exact this.2 r hr

/-- everything reachable from a root whose head set and fact cache lie below its `free` lies
below its `free` -/
theorem reach_below {recs : List Rec} (hrb : RefsBelow recs) {r : Root}
    (hh : ∀ o, r.heads = some o → Below recs r.free o) (hf : ∀ o, r.fact = some o → Below recs r.free o)
    {o : Nat} (h : Reach recs r o) : Below recs r.free o := by
  induction h with
  | heads h => exact hh _ h
  | fact h => exact hf _ h
  | step rec _ hmem hoff hin ih =>
    obtain ⟨rec2, _, ho2, he2⟩ := ih
    obtain ⟨rec3, hm3, ho3, he3⟩ := hrb rec hmem _ hin
    refine ⟨rec3, hm3, ho3, ?_⟩
    have : rec2.off < rec2.end_ := by unfold Rec.end_; omega
    omega

theorem doneFrom_mem (L : Layout) (ck : Checksum) :
    ∀ (calls : List Call) (w : Writer) (done : Option Root) (n : Nat) (r : Root),
      doneFrom L ck w done calls n = some r → done = some r ∨ r ∈ commitRoots L ck w calls := by
  intro calls
  induction calls with
  | nil => intro w done n r h; exact Or.inl h
  | cons c cs ih =>
    intro w done n r h
    simp only [doneFrom] at h
    split at h
    · exact Or.inl h
    · rcases ih _ _ _ r h with h' | h'
      · cases c with
        | append b refs => exact Or.inl h'
        | commit hd refs fact =>
          simp only [Call.doneAfter, Option.some.injEq] at h'
          right; simp only [commitRoots, List.mem_append, List.mem_singleton]; exact Or.inl h'.symm
      · right; simp only [commitRoots, List.mem_append]; exact Or.inr h'

theorem progFrom_mem (L : Layout) (ck : Checksum) :
    ∀ (calls : List Call) (w : Writer) (n : Nat) (r : Root),
      progFrom L ck w calls n = some r → r ∈ commitRoots L ck w calls := by
  intro calls
  induction calls with
  | nil => intro w n r h; cases h
  | cons c cs ih =>
    intro w n r h
    simp only [progFrom] at h
    split at h
    · cases c with
      | append b refs => cases h
      | commit hd refs fact =>
        simp only at h
        split at h
        · simp only [Option.some.injEq] at h
          simp only [commitRoots, List.mem_append, List.mem_singleton]; exact Or.inl h.symm
        · cases h
    · simp only [commitRoots, List.mem_append]; exact Or.inr (ih _ _ r h)

/-- the commit in progress is the successor of the last completed one -/
theorem prog_succ (L : Layout) (ck : Checksum) :
    ∀ (calls : List Call) (w : Writer) (done : Option Root) (n : Nat) (r : Root),
      w.root.gen = ((done.map (·.gen)).getD 0) → progFrom L ck w calls n = some r →
      r.gen = ((doneFrom L ck w done calls n).map (·.gen)).getD 0 + 1 := by
  intro calls
  induction calls with
  | nil => intro w done n r _ h; cases h
  | cons c cs ih =>
    intro w done n r hg h
    simp only [progFrom] at h
    simp only [doneFrom]
    split at h
    · rename_i hn
      rw [if_pos hn]
      cases c with
      | append b refs => cases h
      | commit hd refs fact =>
        simp only at h
        split at h
        · simp only [Option.some.injEq] at h
          rw [← h, ← hg]
          simp only [Writer.step, commit_root, commitRoot]
        · cases h
    · rename_i hn
      rw [if_neg hn]
      apply ih _ _ _ _ _ h
      cases c with
      | append b refs => simp only [Writer.step, appendAt_root, Call.doneAfter]; exact hg
      | commit hd refs fact => simp only [Call.doneAfter, Option.map_some, Option.getD_some]

end AranyaV.Disk
