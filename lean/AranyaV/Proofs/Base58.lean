import AranyaV.Model.Base58
/-! Helper lemmas for C46: positional notation, byte strings, the generated tables. -/
namespace AranyaV.Base58
open AranyaV.Gen.Base58

/-- induction from the right end of a list -/
theorem snoc_induction {α} {P : List α → Prop} (hnil : P [])
    (hsnoc : ∀ a d, P a → P (a ++ [d])) : ∀ l, P l := by
  intro l
  have h : P l.reverse.reverse := by
    induction l.reverse with
    | nil => exact hnil
    | cons d a ih => simpa using hsnoc a.reverse d ih
  simpa using h

/-! ## positional notation -/

theorem foldl_digits (B : Nat) (ds : List Nat) (acc : Nat) :
    ds.foldl (fun acc d => acc * B + d) acc = acc * B ^ ds.length + ofDigits B ds := by
  induction ds generalizing acc with
  | nil => simp [ofDigits]
  | cons d ds ih =>
    simp only [List.foldl_cons, List.length_cons, ofDigits]
    rw [ih, ih (0 * B + d)]
    simp only [Nat.zero_mul, Nat.zero_add, Nat.pow_succ]
    rw [Nat.add_mul, Nat.add_assoc, Nat.mul_assoc, Nat.mul_comm B]

@[simp] theorem ofDigits_nil (B : Nat) : ofDigits B [] = 0 := rfl

theorem ofDigits_append (B : Nat) (a b : List Nat) :
    ofDigits B (a ++ b) = ofDigits B a * B ^ b.length + ofDigits B b := by
  simp only [ofDigits, List.foldl_append]
  rw [foldl_digits]; rfl

theorem ofDigits_single (B d : Nat) : ofDigits B [d] = d := by simp [ofDigits]

theorem ofDigits_snoc (B : Nat) (a : List Nat) (d : Nat) :
    ofDigits B (a ++ [d]) = ofDigits B a * B + d := by
  rw [ofDigits_append, ofDigits_single]; simp

theorem ofDigits_cons (B : Nat) (d : Nat) (a : List Nat) :
    ofDigits B (d :: a) = d * B ^ a.length + ofDigits B a := by
  have := ofDigits_append B [d] a
  simpa [ofDigits_single] using this

@[simp] theorem toDigits_length (B k n : Nat) : (toDigits B k n).length = k := by
  induction k generalizing n with
  | zero => rfl
  | succ k ih => simp [toDigits, ih]

theorem toDigits_lt (B : Nat) (hB : 0 < B) (k n : Nat) : ∀ d ∈ toDigits B k n, d < B := by
  induction k generalizing n with
  | zero => simp [toDigits]
  | succ k ih =>
    intro d hd
    simp only [toDigits, List.mem_append, List.mem_singleton] at hd
    rcases hd with hd | rfl
    · exact ih _ d hd
    · exact Nat.mod_lt _ hB

theorem ofDigits_toDigits (B : Nat) (k n : Nat) : ofDigits B (toDigits B k n) = n % B ^ k := by
  induction k generalizing n with
  | zero => simp [toDigits, Nat.mod_one]
  | succ k ih =>
    simp only [toDigits, ofDigits_snoc, ih]
    rw [Nat.pow_succ, Nat.mul_comm (B ^ k) B, Nat.mod_mul, Nat.mul_comm, Nat.add_comm]

theorem ofDigits_lt (B : Nat) (ds : List Nat) (h : ∀ d ∈ ds, d < B) :
    ofDigits B ds < B ^ ds.length := by
  induction ds using snoc_induction with
  | hnil => simp
  | hsnoc a d ih =>
    rw [ofDigits_snoc, List.length_append, List.length_singleton, Nat.pow_succ]
    have h1 := ih (fun x hx => h x (by simp [hx]))
    have h2 : d < B := h d (by simp)
    calc ofDigits B a * B + d < ofDigits B a * B + B := by omega
      _ = (ofDigits B a + 1) * B := by rw [Nat.add_mul, Nat.one_mul]
      _ ≤ B ^ a.length * B := Nat.mul_le_mul_right B h1

theorem toDigits_ofDigits (B : Nat) (ds : List Nat) (h : ∀ d ∈ ds, d < B) :
    toDigits B ds.length (ofDigits B ds) = ds := by
  induction ds using snoc_induction with
  | hnil => rfl
  | hsnoc a d ih =>
    have h2 : d < B := h d (by simp)
    have hB : 0 < B := by omega
    rw [ofDigits_snoc, List.length_append, List.length_singleton, toDigits]
    have e1 : (ofDigits B a * B + d) / B = ofDigits B a := by
      rw [Nat.mul_comm, Nat.mul_add_div hB, Nat.div_eq_of_lt h2, Nat.add_zero]
    have e2 : (ofDigits B a * B + d) % B = d := by
      rw [Nat.mul_comm, Nat.mul_add_mod, Nat.mod_eq_of_lt h2]
    rw [e1, e2, ih (fun x hx => h x (by simp [hx]))]

/-- `toDigits k` only looks at `n mod B^k` -/
theorem toDigits_mod (B : Nat) (hB : 0 < B) (k n : Nat) :
    toDigits B k (n % B ^ k) = toDigits B k n := by
  have h := toDigits_ofDigits B (toDigits B k n) (toDigits_lt B hB k n)
  rw [toDigits_length, ofDigits_toDigits] at h
  exact h

theorem toDigits_add (B : Nat) (a b n : Nat) :
    toDigits B (a + b) n = toDigits B a (n / B ^ b) ++ toDigits B b n := by
  induction b generalizing n with
  | zero => simp [toDigits]
  | succ b ih =>
    rw [← Nat.add_assoc, toDigits, toDigits, ih, List.append_assoc, Nat.div_div_eq_div_mul,
      Nat.pow_succ, Nat.mul_comm B]

theorem toDigits_zero (B k : Nat) : toDigits B k 0 = List.replicate k 0 := by
  induction k with
  | zero => rfl
  | succ k ih =>
    simp only [toDigits, Nat.zero_div, Nat.zero_mod, ih]
    exact (List.replicate_succ' ..).symm

theorem toDigits_small (B j k n : Nat) (h : n < B ^ k) :
    toDigits B (j + k) n = List.replicate j 0 ++ toDigits B k n := by
  rw [toDigits_add, Nat.div_eq_of_lt h, toDigits_zero]

/-! ## bytes -/

theorem beNat_lt (b : List UInt8) : beNat b < 256 ^ b.length := by
  have := ofDigits_lt 256 (b.map UInt8.toNat) (by
    intro d hd
    simp only [List.mem_map] at hd
    obtain ⟨x, _, rfl⟩ := hd
    exact x.toNat_lt)
  simpa [beNat] using this

@[simp] theorem beBytes_length (k n : Nat) : (beBytes k n).length = k := by simp [beBytes]

theorem beBytes_beNat (b : List UInt8) : beBytes b.length (beNat b) = b := by
  have h := toDigits_ofDigits 256 (b.map UInt8.toNat) (by
    intro d hd
    simp only [List.mem_map] at hd
    obtain ⟨x, _, rfl⟩ := hd
    exact x.toNat_lt)
  simp only [List.length_map] at h
  simp only [beBytes, beNat, h, List.map_map]
  conv => rhs; rw [← List.map_id b]
  apply List.map_congr_left
  intro x _
  simp

theorem beNat_beBytes (k n : Nat) (h : n < 256 ^ k) : beNat (beBytes k n) = n := by
  simp only [beNat, beBytes, List.map_map]
  have : (toDigits 256 k n).map (UInt8.toNat ∘ UInt8.ofNat) = toDigits 256 k n := by
    conv => rhs; rw [← List.map_id (toDigits 256 k n)]
    apply List.map_congr_left
    intro d hd
    have := toDigits_lt 256 (by decide) k n d hd
    simp [UInt8.toNat_ofNat_of_lt' this]
  rw [this, ofDigits_toDigits, Nat.mod_eq_of_lt h]

/-! ## the generated tables (finite checks, by kernel evaluation) -/

theorem alphabet_length : alphabet.length = 58 := by decide +kernel
theorem table_length : table.length = 256 := by decide +kernel

/-- `B58[ALPHABET[d]] = d` -/
theorem digitVal_digitChar : ∀ d, d < 58 → digitVal (digitChar d) = d := by decide +kernel

theorem table_inv : ∀ c, c < 256 → table.getD c 255 ≠ 255 →
    table.getD c 255 < 58 ∧ (alphabet.getD (table.getD c 255) 0).toNat = c := by decide +kernel

/-- a byte the table accepts is the alphabet character of its digit -/
theorem digitChar_digitVal (c : UInt8) (h : digitVal c ≠ 255) :
    digitVal c < 58 ∧ digitChar (digitVal c) = c := by
  have := table_inv c.toNat c.toNat_lt h
  exact ⟨this.1, UInt8.toNat_inj.mp this.2⟩

/-- `RADII[k] = 58^k` for the chunk lengths that occur -/
theorem radii_spec : ∀ k, k < 11 → 1 ≤ k → radii.getD k 0 = 58 ^ k := by decide +kernel

theorem consts : radix = 58 ^ group ∧ group = 10 ∧ chunk = 10 ∧ idLen = 32 ∧ b58Size32 = 44 ∧
    58 ^ 10 ≤ u64Max ∧ two256 ≤ 58 ^ b58Size32 ∧ two256 = 256 ^ idLen := by decide +kernel

/-! ## list surgery -/

theorem take_app_len {α} (l1 l2 : List α) (n : Nat) (h : l1.length = n) :
    (l1 ++ l2).take n = l1 := by
  subst h; simp

theorem drop_app_len {α} (l1 l2 : List α) (n : Nat) (h : l1.length = n) :
    (l1 ++ l2).drop n = l2 := by
  subst h; simp

theorem set_eq' {α} (l : List α) (a : Nat) (b : α) (h : a < l.length) :
    l.set a b = l.take a ++ b :: l.drop (a + 1) := by
  simp [List.set_eq_take_append_cons_drop, h]

theorem drop_set_self {α} (l : List α) (a : Nat) (b : α) (h : a < l.length) :
    (l.set a b).drop a = b :: l.drop (a + 1) := by
  rw [set_eq' l a b h, drop_app_len _ _ _ (by simp; omega)]

end AranyaV.Base58
