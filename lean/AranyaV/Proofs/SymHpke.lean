import AranyaV.Spec.SymHpke
/-! Lemmas about the symbolic HPKE model: both sides derive the same shared secret / keys exactly
when the receiver uses the encapsulation, the recipient key and the sender key of the sender. -/
namespace AranyaV.Sym

theorem pkOf_inj {a b : Nat} (h : pkOf a = pkOf b) : a = b := by
  simpa [pkOf] using h

/-- the shared secret the sender derives -/
def sharedOf (skS : Option Nat) (e r : Nat) : Term :=
  .kdf (tuple (mkDh e r :: (skS.map fun s => mkDh s r).toList))
    (kemCtx (pkOf e) (pkOf r) (skS.map pkOf))

theorem sendShared_pk (skS : Option Nat) (e r : Nat) :
    sendShared skS e (pkOf r) = some (pkOf e, sharedOf skS e r) := by
  cases skS <;> simp [sendShared, dhWith, pkOf, sharedOf]

theorem sendShared_some {skS : Option Nat} {e : Nat} {pkR enc sh : Term}
    (h : sendShared skS e pkR = some (enc, sh)) :
    ∃ r, pkR = pkOf r ∧ enc = pkOf e ∧ sh = sharedOf skS e r := by
  unfold sendShared at h
  cases hd : dhWith e pkR with
  | none => simp [hd] at h
  | some d =>
    obtain ⟨r, rfl, rfl⟩ := dhWith_eq_some.mp hd
    have := sendShared_pk skS e r
    unfold sendShared at this
    rw [show Term.pk (Term.sk r) = pkOf r from rfl] at h hd
    rw [this] at h
    simp only [Option.some.injEq, Prod.mk.injEq] at h
    exact ⟨r, rfl, h.1.symm, h.2.symm⟩

theorem recvShared_pk (skS : Option Nat) (e r : Nat) :
    recvShared (skS.map pkOf) (pkOf e) r = some (sharedOf skS e r) := by
  cases skS <;> simp [recvShared, dhWith, pkOf, sharedOf, mkDh_comm r]

theorem recvShared_some {pkS : Option Term} {enc sh : Term} {r : Nat}
    (h : recvShared pkS enc r = some sh) :
    ∃ e skS, enc = pkOf e ∧ pkS = skS.map pkOf ∧ sh = sharedOf skS e r := by
  unfold recvShared at h
  cases hd : dhWith r enc with
  | none => simp [hd] at h
  | some d =>
    obtain ⟨e, rfl, rfl⟩ := dhWith_eq_some.mp hd
    simp only [hd] at h
    cases pkS with
    | none =>
      refine ⟨e, none, rfl, rfl, ?_⟩
      simp only [Option.some.injEq] at h
      rw [← h]; simp [sharedOf, pkOf, mkDh_comm r]
    | some p =>
      cases hd2 : dhWith r p with
      | none => simp [hd2] at h
      | some d2 =>
        obtain ⟨s, rfl, rfl⟩ := dhWith_eq_some.mp hd2
        simp only [hd2, Option.some.injEq] at h
        refine ⟨e, some s, rfl, rfl, ?_⟩
        rw [← h]; simp [sharedOf, pkOf, mkDh_comm r]

theorem sharedOf_inj {skS skS' : Option Nat} {e e' r r' : Nat}
    (h : sharedOf skS e r = sharedOf skS' e' r') : skS = skS' ∧ e = e' ∧ r = r' := by
  simp only [sharedOf, Term.kdf.injEq] at h
  have := tuple_inj h.2
  simp only [List.cons.injEq] at this
  obtain ⟨h1, h2, h3⟩ := this
  refine ⟨?_, pkOf_inj h1, pkOf_inj h2⟩
  cases skS <;> cases skS' <;> simp at h3
  · rfl
  · rw [pkOf_inj h3]

theorem modeLit_inj {a b : Bool} (h : modeLit a = modeLit b) : a = b := by
  cases a <;> cases b <;> simp [modeLit] at h <;> rfl

/-- **Both sides derive the same key exactly for matching parameters** (key half). -/
theorem setup_key_agree_iff {skS : Option Nat} {e : Nat} {pkR info enc : Term} {ks : HpkeKeys}
    {pkS' : Option Term} {enc' info' : Term} {r' : Nat} {kr : HpkeKeys}
    (hs : setupSend skS e pkR info = some (enc, ks))
    (hr : setupRecv pkS' enc' r' info' = some kr) :
    kr.key = ks.key ↔ enc' = enc ∧ pkR = pkOf r' ∧ pkS' = skS.map pkOf ∧ info' = info := by
  unfold setupSend at hs
  unfold setupRecv at hr
  cases h1 : sendShared skS e pkR with
  | none => simp [h1] at hs
  | some p =>
    obtain ⟨enc0, sh⟩ := p
    obtain ⟨r, rfl, rfl, rfl⟩ := sendShared_some h1
    simp only [h1, Option.map_some, Option.some.injEq, Prod.mk.injEq] at hs
    obtain ⟨rfl, rfl⟩ := hs
    cases h2 : recvShared pkS' enc' r' with
    | none => simp [h2] at hr
    | some sh' =>
      obtain ⟨e', skS', rfl, rfl, rfl⟩ := recvShared_some h2
      simp only [h2, Option.map_some, Option.some.injEq] at hr
      subst hr
      simp only [schedule, Term.kdf.injEq]
      constructor
      · rintro ⟨hsh, htu⟩
        obtain ⟨rfl, rfl, rfl⟩ := sharedOf_inj hsh
        have := tuple_inj htu
        simp only [List.cons.injEq, true_and, and_true] at this
        exact ⟨rfl, rfl, rfl, this.2⟩
      · rintro ⟨he, hp, hS, rfl⟩
        have he' := pkOf_inj he
        have hr' := pkOf_inj hp
        subst he' hr'
        have : skS' = skS := by
          cases skS <;> cases skS' <;> simp at hS
          · rfl
          · rw [pkOf_inj hS]
        subst this
        simp

/-- equal keys come with equal base nonces -/
theorem setup_nonce_of_key {skS : Option Nat} {e : Nat} {pkR info enc : Term} {ks : HpkeKeys}
    {pkS' : Option Term} {enc' info' : Term} {r' : Nat} {kr : HpkeKeys}
    (hs : setupSend skS e pkR info = some (enc, ks))
    (hr : setupRecv pkS' enc' r' info' = some kr) (hk : kr.key = ks.key) : kr = ks := by
  obtain ⟨rfl, rfl, rfl, rfl⟩ := (setup_key_agree_iff hs hr).mp hk
  unfold setupSend at hs
  unfold setupRecv at hr
  rw [sendShared_pk] at hs
  simp only [Option.map_some, Option.some.injEq, Prod.mk.injEq] at hs
  obtain ⟨rfl, rfl⟩ := hs
  rw [recvShared_pk] at hr
  simp only [Option.map_some, Option.some.injEq] at hr
  rw [← hr]
  cases skS <;> rfl

/-- the honest receiver derives the sender's keys -/
theorem setupRecv_of_send {skS : Option Nat} {e r : Nat} {info enc : Term} {ks : HpkeKeys}
    (hs : setupSend skS e (pkOf r) info = some (enc, ks)) :
    setupRecv (skS.map pkOf) enc r info = some ks := by
  unfold setupSend at hs
  rw [sendShared_pk] at hs
  simp only [Option.map_some, Option.some.injEq, Prod.mk.injEq] at hs
  obtain ⟨rfl, rfl⟩ := hs
  unfold setupRecv
  rw [recvShared_pk]
  cases skS <;> rfl

/-- sending succeeds exactly towards a well-formed recipient key -/
theorem setupSend_isSome_iff {skS : Option Nat} {e : Nat} {pkR info : Term} :
    (setupSend skS e pkR info).isSome ↔ ∃ r, pkR = pkOf r := by
  constructor
  · intro h
    cases hs : setupSend skS e pkR info with
    | none => simp [hs] at h
    | some p =>
      unfold setupSend at hs
      cases h1 : sendShared skS e pkR with
      | none => simp [h1] at hs
      | some q =>
        obtain ⟨r, hr, _⟩ := sendShared_some (enc := q.1) (sh := q.2) h1
        exact ⟨r, hr⟩
  · rintro ⟨r, rfl⟩
    unfold setupSend
    rw [sendShared_pk]; simp

/-! ## single-shot seal / open -/

theorem hpke_open_seal {skS : Option Nat} {e r : Nat} {info ad pt : Term} :
    ∃ enc b t, hpkeSeal skS e (pkOf r) info ad pt = some (enc, b, t) ∧
      hpkeOpen (skS.map pkOf) enc r info ad b t = some pt := by
  have hsome : (setupSend skS e (pkOf r) info).isSome := setupSend_isSome_iff.mpr ⟨r, rfl⟩
  cases hs : setupSend skS e (pkOf r) info with
  | none => simp [hs] at hsome
  | some p =>
    obtain ⟨enc, ks⟩ := p
    refine ⟨enc, .enc ks.key ks.nonce ad pt, .etag ks.key ks.nonce ad pt, by simp [hpkeSeal, hs], ?_⟩
    simp [hpkeOpen, setupRecv_of_send hs, aeadOpen]

/-- If an accepted (enc', body', tag') reuses the body or the tag of an honest sealing, every
parameter of the receiver matches the sender's and nothing was changed. -/
theorem hpke_open_reuse {skS : Option Nat} {e : Nat} {pkR info ad pt enc b t : Term}
    {pkS' : Option Term} {enc' info' ad' b' t' pt' : Term} {r' : Nat}
    (hs : hpkeSeal skS e pkR info ad pt = some (enc, b, t))
    (ho : hpkeOpen pkS' enc' r' info' ad' b' t' = some pt')
    (hreuse : b' = b ∨ t' = t) :
    enc' = enc ∧ pkR = pkOf r' ∧ pkS' = skS.map pkOf ∧ info' = info ∧ ad' = ad ∧
      b' = b ∧ t' = t ∧ pt' = pt := by
  unfold hpkeSeal at hs
  cases h1 : setupSend skS e pkR info with
  | none => simp [h1] at hs
  | some p =>
    obtain ⟨enc0, ks⟩ := p
    simp only [h1, Option.map_some, Option.some.injEq, Prod.mk.injEq] at hs
    obtain ⟨rfl, rfl, rfl⟩ := hs
    unfold hpkeOpen at ho
    cases h2 : setupRecv pkS' enc' r' info' with
    | none => simp [h2] at ho
    | some kr =>
      simp only [h2] at ho
      obtain ⟨hb, ht⟩ := aeadOpen_eq_some.mp ho
      have hk : kr.key = ks.key ∧ ad' = ad ∧ pt' = pt := by
        rcases hreuse with h | h
        · rw [hb] at h; simp only [Term.enc.injEq] at h; exact ⟨h.1, h.2.2.1, h.2.2.2⟩
        · rw [ht] at h; simp only [encTag, Term.etag.injEq] at h; exact ⟨h.1, h.2.2.1, h.2.2.2⟩
      obtain ⟨hk, rfl, rfl⟩ := hk
      have hkeys := setup_nonce_of_key h1 h2 hk
      obtain ⟨h3, h4, h5, h6⟩ := (setup_key_agree_iff h1 h2).mp hk
      subst hkeys
      exact ⟨h3, h4, h5, h6, rfl, hb, ht, rfl⟩

end AranyaV.Sym
