import AranyaV.Model.Afc
/-!
Helper lemmas for C39: little-endian codec, the length arithmetic of `open`/`open_in_place`,
the ideal-AEAD log, and the seal→open building blocks.
-/
namespace AranyaV.Afc
open AranyaV.Gen.Afc


theorem leBytes_length (n w : Nat) : (leBytes n w).length = w := by
  induction w generalizing n with
  | zero => rfl
  | succ w ih => simp [leBytes, ih]

theorem ofLe_leBytes (n w : Nat) : ofLe (leBytes n w) = n % 256 ^ w := by
  induction w generalizing n with
  | zero => simp [leBytes, ofLe, Nat.mod_one]
  | succ w ih =>
    have h8 : (2:Nat) ^ 8 = 256 := by decide
    simp only [leBytes, ofLe, ih, UInt8.toNat_ofNat', h8]
    rw [Nat.pow_succ, Nat.mul_comm (256 ^ w) 256, Nat.mod_mul]

theorem leBytes_ofLe (bs : List UInt8) : leBytes (ofLe bs) bs.length = bs := by
  induction bs with
  | nil => rfl
  | cons b t ih =>
    have hb : b.toNat < 256 := UInt8.toNat_lt b
    simp only [ofLe, List.length_cons, leBytes]
    have h1 : (b.toNat + 256 * ofLe t) / 256 = ofLe t := by omega
    have h2 : UInt8.ofNat (b.toNat + 256 * ofLe t) = b := by
      apply UInt8.toNat_inj.mp
      rw [UInt8.toNat_ofNat']
      omega
    rw [h1, h2, ih]

theorem openC_no_panic (w : World) (c : Nat) (dst wire : List UInt8) :
    (openC w c dst wire).1 ≠ .hostPanic := by
  unfold openC
  cases csub wire.length dataHeaderSize with
  | none => simp
  | some r =>
    simp only
    cases csub r tagSize with
    | none => simp
    | some p =>
      simp only
      split
      · simp
      · cases doOpen w c (ofLe (wire.drop r)) (wire.take r) with
        | error e => simp
        | ok x => obtain ⟨l, pt⟩ := x; simp

theorem openIP_no_panic (w : World) (c : Nat) (data : List UInt8) :
    (openIP true w c data).1 ≠ .hostPanic := by
  unfold openIP
  cases csub data.length dataHeaderSize with
  | none => simp
  | some r =>
    simp only
    cases csub r tagSize with
    | none => simp
    | some p =>
      simp only
      cases doOpen w c (ofLe (data.drop r)) (data.take r) with
      | error e => simp
      | ok x => obtain ⟨l, pt⟩ := x; simp

theorem csub_none {a b : Nat} : csub a b = none ↔ a < b := by
  unfold csub; split <;> simp_all

theorem csub_some {a b n : Nat} : csub a b = some n ↔ b ≤ a ∧ n = a - b := by
  unfold csub; split <;> simp_all <;> omega

/-- F3 -/
theorem openIP_old_panics (w : World) (c : Nat) (data : List UInt8)
    (h1 : dataHeaderSize ≤ data.length) (h2 : data.length < dataHeaderSize + tagSize) :
    (openIP false w c data).1 = .hostPanic := by
  unfold openIP
  have e1 : csub data.length dataHeaderSize = some (data.length - dataHeaderSize) :=
    csub_some.mpr ⟨h1, rfl⟩
  have e2 : csub (data.length - dataHeaderSize) tagSize = none := csub_none.mpr (by omega)
  simp [e1, e2]


/-! ## failure leaves no plaintext -/

theorem openC_fail_zeroized {w : World} {c : Nat} {dst wire dst' : List UInt8} {e : Err}
    (h : openC w c dst wire = (.err e, dst')) : dst' = dst ∨ dst' = zeros dst.length := by
  unfold openC at h
  cases h1 : csub wire.length dataHeaderSize with
  | none => simp [h1] at h; exact Or.inl h.2.symm
  | some r =>
    simp only [h1] at h
    cases h2 : csub r tagSize with
    | none => simp [h2] at h; exact Or.inl h.2.symm
    | some p =>
      simp only [h2] at h
      split at h
      · simp at h; exact Or.inl h.2.symm
      · cases h3 : doOpen w c (ofLe (wire.drop r)) (wire.take r) with
        | error e' => simp [h3] at h; exact Or.inr h.2.symm
        | ok x => obtain ⟨l, pt⟩ := x; simp [h3] at h

theorem openIP_fail_zeroized {w : World} {c : Nat} {data data' : List UInt8} {e : Err}
    (h : openIP true w c data = (.err e, data')) : data' = data ∨ data' = zeros data.length := by
  unfold openIP at h
  cases h1 : csub data.length dataHeaderSize with
  | none => simp [h1] at h; exact Or.inl h.2.symm
  | some r =>
    simp only [h1] at h
    cases h2 : csub r tagSize with
    | none => simp [h2] at h; exact Or.inl h.2.symm
    | some p =>
      simp only [h2] at h
      cases h3 : doOpen w c (ofLe (data.drop r)) (data.take r) with
      | error e' => simp [h3] at h; exact Or.inr h.2.symm
      | ok x => obtain ⟨l, pt⟩ := x; simp [h3] at h

/-! ## authenticity -/

theorem findRec_some {log : List SealRec} {k n : Nat} {r : SealRec} (h : findRec log k n = some r) :
    r ∈ log ∧ r.key = k ∧ r.nonce = n := by
  unfold findRec at h
  have h1 := List.mem_of_find?_eq_some h
  have h2 := List.find?_some h
  simp at h2
  exact ⟨h1, h2.1, h2.2⟩

theorem doOpen_ok {w : World} {c s l : Nat} {ct pt : List UInt8}
    (h : doOpen w c s ct = .ok (l, pt)) :
    ∃ ch r, w.chan c = some ch ∧ r ∈ w.log ∧ r.key = c ∧ r.nonce = s ∧
      r.version = versionV1 ∧ r.label = l ∧ l = ch.openLabel ∧ r.out = ct ∧ r.pt = pt ∧
      s < seqMax := by
  unfold doOpen at h
  cases hc : w.chan c with
  | none => simp [hc] at h
  | some ch =>
    simp only [hc] at h
    split at h
    · simp at h
    · rename_i hs
      unfold aeadOpen at h
      cases hf : findRec w.log c s with
      | none => simp [hf] at h
      | some r =>
        obtain ⟨m1, m2, m3⟩ := findRec_some hf
        simp only [hf] at h
        by_cases hcond : r.version = versionV1 ∧ r.label = ch.openLabel ∧ r.out = ct
        · simp [hcond] at h
          exact ⟨ch, r, rfl, m1, m2, m3, hcond.1, by rw [hcond.2.1, h.1], h.1.symm, hcond.2.2, h.2,
            by omega⟩
        · simp [hcond] at h

theorem split_wire {wire : List UInt8} {r : Nat} (h : csub wire.length dataHeaderSize = some r) :
    wire = wire.take r ++ encSeq (ofLe (wire.drop r)) := by
  obtain ⟨h1, h2⟩ := csub_some.mp h
  have hl : (wire.drop r).length = dataHeaderSize := by simp [h2]; omega
  unfold encSeq
  rw [← hl, leBytes_ofLe, List.take_append_drop]

/-- **Authenticity (copying interface)**: if `open` accepts `wire`, then `wire` is byte for byte
the output of a logged seal call under this channel's key — ciphertext‖tag exactly as produced,
followed by the header of the sequence number that call used — with this channel's label, and
what is returned is that call's plaintext, label and sequence number. -/
theorem openC_authentic {w : World} {c l s : Nat} {dst wire dst' : List UInt8}
    (h : openC w c dst wire = (.ok (l, s), dst')) :
    ∃ ch r, w.chan c = some ch ∧ r ∈ w.log ∧ r.key = c ∧ r.nonce = s ∧
      r.version = versionV1 ∧ r.label = l ∧ l = ch.openLabel ∧
      wire = r.out ++ encSeq s ∧
      dst' = r.pt ++ dst.drop (wire.length - dataHeaderSize - tagSize) := by
  unfold openC at h
  cases h1 : csub wire.length dataHeaderSize with
  | none => simp [h1] at h
  | some r =>
    simp only [h1] at h
    cases h2 : csub r tagSize with
    | none => simp [h2] at h
    | some p =>
      simp only [h2] at h
      split at h
      · simp at h
      · cases h3 : doOpen w c (ofLe (wire.drop r)) (wire.take r) with
        | error e' => simp [h3] at h
        | ok x =>
          obtain ⟨l', pt⟩ := x
          simp [h3] at h
          obtain ⟨⟨hl, hs⟩, hd⟩ := h
          obtain ⟨ch, rc, a1, a2, a3, a4, a5, a6, a7, a8, a9, _⟩ := doOpen_ok h3
          refine ⟨ch, rc, a1, a2, a3, by rw [a4, hs], a5, by rw [a6, hl], by rw [← hl, a7], ?_, ?_⟩
          · rw [a8, ← hs]; exact split_wire h1
          · rw [a9, ← hd]
            have := (csub_some.mp h1).2
            have := (csub_some.mp h2).2
            subst_vars; rfl

theorem openIP_authentic {w : World} {c l s : Nat} {data data' : List UInt8}
    (h : openIP true w c data = (.ok (l, s), data')) :
    ∃ ch r, w.chan c = some ch ∧ r ∈ w.log ∧ r.key = c ∧ r.nonce = s ∧
      r.version = versionV1 ∧ r.label = l ∧ l = ch.openLabel ∧
      data = r.out ++ encSeq s ∧ data' = r.pt := by
  unfold openIP at h
  cases h1 : csub data.length dataHeaderSize with
  | none => simp [h1] at h
  | some r =>
    simp only [h1] at h
    cases h2 : csub r tagSize with
    | none => simp [h2] at h
    | some p =>
      simp only [h2] at h
      cases h3 : doOpen w c (ofLe (data.drop r)) (data.take r) with
      | error e' => simp [h3] at h
      | ok x =>
        obtain ⟨l', pt⟩ := x
        simp [h3] at h
        obtain ⟨⟨hl, hs⟩, hd⟩ := h
        obtain ⟨ch, rc, a1, a2, a3, a4, a5, a6, a7, a8, a9, _⟩ := doOpen_ok h3
        refine ⟨ch, rc, a1, a2, a3, by rw [a4, hs], a5, by rw [a6, hl], by rw [← hl, a7], ?_, ?_⟩
        · rw [a8, ← hs]; exact split_wire h1
        · rw [a9, ← hd]


/-! ## round trips -/

/-- side condition on the generated constants: every admissible sequence number fits the header -/
theorem seqMax_fits : seqMax ≤ 256 ^ dataHeaderSize := by decide

theorem encSeq_length (s : Nat) : (encSeq s).length = dataHeaderSize := leBytes_length _ _

theorem ofLe_encSeq {s : Nat} (h : s < seqMax) : ofLe (encSeq s) = s := by
  unfold encSeq
  rw [ofLe_leBytes]
  exact Nat.mod_eq_of_lt (Nat.lt_of_lt_of_le h seqMax_fits)

theorem chan_some {w : World} {c : Nat} {ch : Chan} (h : w.chan c = some ch) :
    w.chans[c]? = some ch ∧ ch.removed = false := by
  unfold World.chan at h
  cases hc : w.chans[c]? with
  | none => simp [hc] at h
  | some x =>
    simp only [hc] at h
    split at h
    · simp at h
    · simp at h; subst h; simp_all

/-- the world after a successful `do_seal` on channel `c` -/
def afterSeal (w : World) (c : Nat) (ch : Chan) (pt oracle : List UInt8) : World :=
  { (w.setChan c { ch with seq := ch.seq + 1 }) with
    log := ⟨c, ch.seq, versionV1, ch.sealLabel, pt, oracle⟩ :: w.log }

theorem doSeal_ok {w w' : World} {c s : Nat} {pt oracle : List UInt8}
    (h : doSeal w c pt oracle = .ok (s, w')) :
    ∃ ch, w.chan c = some ch ∧ s = ch.seq ∧ s < seqMax ∧ w' = afterSeal w c ch pt oracle := by
  unfold doSeal at h
  cases hc : w.chan c with
  | none => simp [hc] at h
  | some ch =>
    simp only [hc] at h
    split at h
    · simp at h
    · rename_i hs
      simp at h
      exact ⟨ch, rfl, h.1.symm, by omega, by rw [← h.2]; rfl⟩

theorem chan_afterSeal {w : World} {c : Nat} {ch : Chan} (pt oracle : List UInt8)
    (h : w.chan c = some ch) :
    (afterSeal w c ch pt oracle).chan c = some { ch with seq := ch.seq + 1 } := by
  obtain ⟨h1, h2⟩ := chan_some h
  have hlt : c < w.chans.length := by
    rcases Nat.lt_or_ge c w.chans.length with h | h
    · exact h
    · rw [List.getElem?_eq_none h] at h1; cases h1
  simp [afterSeal, World.chan, World.setChan, hlt, h2]

theorem doOpen_afterSeal {w : World} {c : Nat} {ch : Chan} (pt oracle : List UInt8)
    (h : w.chan c = some ch) (hs : ch.seq < seqMax) (hl : ch.sealLabel = ch.openLabel) :
    doOpen (afterSeal w c ch pt oracle) c ch.seq oracle = .ok (ch.openLabel, pt) := by
  unfold doOpen
  rw [chan_afterSeal pt oracle h]
  have : ¬ ch.seq ≥ seqMax := by omega
  simp [this, aeadOpen, findRec, afterSeal, World.setChan, hl]

theorem openC_of_doOpen {w : World} {c s l : Nat} {pt oracle : List UInt8}
    (hd : doOpen w c s oracle = .ok (l, pt)) (ho : oracle.length = pt.length + tagSize)
    (hs : s < seqMax) (dst2 : List UInt8) (hlen : pt.length ≤ dst2.length) :
    openC w c dst2 (oracle ++ encSeq s) = (.ok (l, s), pt ++ dst2.drop pt.length) := by
  unfold openC
  have e1 : csub (oracle ++ encSeq s).length dataHeaderSize = some oracle.length :=
    csub_some.mpr ⟨by simp [encSeq_length], by simp [encSeq_length]⟩
  have e2 : csub oracle.length tagSize = some pt.length := csub_some.mpr ⟨by omega, by omega⟩
  have e3 : ¬ dst2.length < pt.length := by omega
  simp only [e1, e2, e3, if_false, List.take_left', List.drop_left', ofLe_encSeq hs, hd]

theorem openIP_of_doOpen {w : World} {c s l : Nat} {pt oracle : List UInt8}
    (hd : doOpen w c s oracle = .ok (l, pt)) (ho : oracle.length = pt.length + tagSize)
    (hs : s < seqMax) :
    openIP true w c (oracle ++ encSeq s) = (.ok (l, s), pt) := by
  unfold openIP
  have e1 : csub (oracle ++ encSeq s).length dataHeaderSize = some oracle.length :=
    csub_some.mpr ⟨by simp [encSeq_length], by simp [encSeq_length]⟩
  have e2 : csub oracle.length tagSize = some pt.length := csub_some.mpr ⟨by omega, by omega⟩
  simp only [e1, e2, List.take_left', List.drop_left', ofLe_encSeq hs, hd]


/-! ## histories: the round trip survives any later traffic -/

/-- the state-changing API operations (opening does not change the world) -/
inductive WOp
  | addChan (sealLabel openLabel start : Nat)
  | rmChan (c : Nat)
  | sealC (c : Nat) (dst pt oracle : List UInt8)
  | sealIP (c : Nat) (pt oracle : List UInt8)

def World.apply (w : World) : WOp → World
  | .addChan sl ol st => w.addChan sl ol st
  | .rmChan c => w.rmChan c
  | .sealC c dst pt o => (Afc.sealC w c dst pt o).2.2
  | .sealIP c pt o => (Afc.sealIP w c pt o).2.2

def World.run (w : World) : List WOp → World
  | [] => w
  | op :: ops => World.run (w.apply op) ops

/-- invariant of reachable worlds: a seal context never reuses a sequence number, so `(key, nonce)`
identifies a logged call -/
structure Inv (w : World) : Prop where
  below : ∀ r ∈ w.log, ∀ ch, w.chans[r.key]? = some ch → r.nonce < ch.seq
  uniq : w.log.Pairwise (fun a b => ¬ (a.key = b.key ∧ a.nonce = b.nonce))
  keys : ∀ r ∈ w.log, r.key < w.chans.length

theorem inv_init : Inv {} := ⟨by simp, by simp, by simp⟩

theorem inv_addChan {w : World} (h : Inv w) (sl ol st : Nat) : Inv (w.addChan sl ol st) := by
  refine ⟨?_, h.uniq, ?_⟩
  · intro r hr ch hch
    have hk := h.keys r hr
    simp only [World.addChan] at hch
    rw [List.getElem?_append_left hk] at hch
    exact h.below r hr ch hch
  · intro r hr
    have := h.keys r hr
    simp [World.addChan]; omega

theorem inv_setRemoved {w : World} (h : Inv w) (c : Nat) : Inv (w.rmChan c) := by
  unfold World.rmChan
  cases hc : w.chans[c]? with
  | none => exact h
  | some ch =>
    refine ⟨?_, h.uniq, ?_⟩
    · intro r hr ch' hch'
      simp only [World.setChan] at hch'
      by_cases hk : r.key = c
      · have hlt : c < w.chans.length := hk ▸ h.keys r hr
        rw [hk] at hch'
        simp [hlt] at hch'
        subst hch'
        exact h.below r hr ch (hk ▸ hc)
      · rw [List.getElem?_set_ne (Ne.symm hk)] at hch'
        exact h.below r hr ch' hch'
    · intro r hr
      simpa [World.setChan] using h.keys r hr

theorem inv_afterSeal {w : World} (h : Inv w) {c : Nat} {ch : Chan} (hc : w.chan c = some ch)
    (pt oracle : List UInt8) : Inv (afterSeal w c ch pt oracle) := by
  obtain ⟨hc1, _⟩ := chan_some hc
  have hlt : c < w.chans.length := by
    rcases Nat.lt_or_ge c w.chans.length with h' | h'
    · exact h'
    · rw [List.getElem?_eq_none h'] at hc1; cases hc1
  refine ⟨?_, ?_, ?_⟩
  · intro r hr ch' hch'
    simp only [afterSeal, World.setChan, List.mem_cons] at hr hch'
    rcases hr with rfl | hr
    · simp [hlt] at hch'
      subst hch'
      simp
    · by_cases hk : r.key = c
      · rw [hk] at hch'
        simp [hlt] at hch'
        subst hch'
        have := h.below r hr ch (hk ▸ hc1)
        simp; omega
      · rw [List.getElem?_set_ne (Ne.symm hk)] at hch'
        exact h.below r hr ch' hch'
  · simp only [afterSeal, List.pairwise_cons]
    refine ⟨?_, h.uniq⟩
    intro r hr hcontra
    have h1 : r.key = c := hcontra.1.symm
    have h2 : r.nonce = ch.seq := hcontra.2.symm
    have := h.below r hr ch (h1 ▸ hc1)
    omega
  · intro r hr
    simp only [afterSeal, World.setChan, List.mem_cons, List.length_set] at hr ⊢
    rcases hr with rfl | hr
    · exact hlt
    · exact h.keys r hr

theorem sealC_world (w : World) (c : Nat) (dst pt oracle : List UInt8) :
    (sealC w c dst pt oracle).2.2 = w ∨
    ∃ s, doSeal w c pt oracle = .ok (s, (sealC w c dst pt oracle).2.2) := by
  unfold sealC
  simp only
  split
  · exact Or.inl rfl
  · split
    · exact Or.inl rfl
    · cases hd : doSeal w c pt oracle with
      | error e => exact Or.inl rfl
      | ok x => obtain ⟨s, w'⟩ := x; exact Or.inr ⟨s, rfl⟩

theorem sealIP_world (w : World) (c : Nat) (pt oracle : List UInt8) :
    (sealIP w c pt oracle).2.2 = w ∨
    ∃ s, doSeal w c pt oracle = .ok (s, (sealIP w c pt oracle).2.2) := by
  unfold sealIP
  simp only
  split
  · exact Or.inl rfl
  · cases csub (pt.length + overhead) dataHeaderSize with
    | none => exact Or.inl rfl
    | some r =>
      simp only
      cases csub r tagSize with
      | none => exact Or.inl rfl
      | some p =>
        simp only
        cases hd : doSeal w c pt oracle with
        | error e => exact Or.inl rfl
        | ok x => obtain ⟨s, w'⟩ := x; exact Or.inr ⟨s, rfl⟩

theorem inv_of_doSeal {w w' : World} (h : Inv w) {c s : Nat} {pt oracle : List UInt8}
    (hd : doSeal w c pt oracle = .ok (s, w')) : Inv w' := by
  obtain ⟨ch, c1, _, _, c4⟩ := doSeal_ok hd
  rw [c4]; exact inv_afterSeal h c1 pt oracle

theorem inv_apply {w : World} (h : Inv w) (op : WOp) : Inv (w.apply op) := by
  cases op with
  | addChan sl ol st => exact inv_addChan h sl ol st
  | rmChan c => exact inv_setRemoved h c
  | sealC c dst pt o =>
    rcases sealC_world w c dst pt o with e | ⟨s, e⟩
    · simp only [World.apply]; rw [e]; exact h
    · exact inv_of_doSeal h e
  | sealIP c pt o =>
    rcases sealIP_world w c pt o with e | ⟨s, e⟩
    · simp only [World.apply]; rw [e]; exact h
    · exact inv_of_doSeal h e

theorem inv_run {w : World} (h : Inv w) (ops : List WOp) : Inv (w.run ops) := by
  induction ops generalizing w with
  | nil => exact h
  | cons op ops ih => exact ih (inv_apply h op)


theorem findRec_of_uniq {log : List SealRec}
    (h : log.Pairwise (fun a b => ¬ (a.key = b.key ∧ a.nonce = b.nonce))) {r : SealRec}
    (hr : r ∈ log) : findRec log r.key r.nonce = some r := by
  induction log with
  | nil => cases hr
  | cons a t ih =>
    rw [List.pairwise_cons] at h
    rcases List.mem_cons.mp hr with rfl | hr'
    · simp [findRec]
    · have hne := h.1 r hr'
      have : (a.key == r.key && a.nonce == r.nonce) = false := by
        cases hb : (a.key == r.key && a.nonce == r.nonce) with
        | false => rfl
        | true => simp at hb; exact absurd hb hne
      simp only [findRec, List.find?_cons, this]
      exact ih h.2 hr'

/-- **Any logged call opens**, in every reachable world, as long as the channel still exists and
its two ends agree on the label. -/
theorem open_logged {w : World} (hi : Inv w) {r : SealRec} (hr : r ∈ w.log) {ch : Chan}
    (hc : w.chan r.key = some ch) (hv : r.version = versionV1) (hl : r.label = ch.openLabel)
    (ho : r.out.length = r.pt.length + tagSize) (hs : r.nonce < seqMax) :
    openIP true w r.key (r.out ++ encSeq r.nonce) = (.ok (ch.openLabel, r.nonce), r.pt) ∧
    ∀ dst2 : List UInt8, r.pt.length ≤ dst2.length →
      openC w r.key dst2 (r.out ++ encSeq r.nonce)
        = (.ok (ch.openLabel, r.nonce), r.pt ++ dst2.drop r.pt.length) := by
  have hd : doOpen w r.key r.nonce r.out = .ok (ch.openLabel, r.pt) := by
    unfold doOpen
    have : ¬ r.nonce ≥ seqMax := by omega
    simp [hc, this, aeadOpen, findRec_of_uniq hi.uniq hr, hv, hl]
  exact ⟨openIP_of_doOpen hd ho hs, fun dst2 hlen => openC_of_doOpen hd ho hs dst2 hlen⟩

theorem log_mono_apply {w : World} (op : WOp) {r : SealRec} (h : r ∈ w.log) :
    r ∈ (w.apply op).log := by
  cases op with
  | addChan sl ol st => exact h
  | rmChan c =>
    simp only [World.apply, World.rmChan]
    cases w.chans[c]? <;> exact h
  | sealC c dst pt o =>
    rcases sealC_world w c dst pt o with e | ⟨s, e⟩
    · simp only [World.apply]; rw [e]; exact h
    · obtain ⟨ch, _, _, _, c4⟩ := doSeal_ok e
      simp only [World.apply]; rw [c4]; exact List.mem_cons_of_mem _ h
  | sealIP c pt o =>
    rcases sealIP_world w c pt o with e | ⟨s, e⟩
    · simp only [World.apply]; rw [e]; exact h
    · obtain ⟨ch, _, _, _, c4⟩ := doSeal_ok e
      simp only [World.apply]; rw [c4]; exact List.mem_cons_of_mem _ h

theorem log_mono_run {w : World} (ops : List WOp) {r : SealRec} (h : r ∈ w.log) :
    r ∈ (w.run ops).log := by
  induction ops generalizing w with
  | nil => exact h
  | cons op ops ih => exact ih (log_mono_apply op h)

theorem labels_afterSeal {w : World} {c' : Nat} {ch0 : Chan} (h0 : w.chan c' = some ch0)
    (pt oracle : List UInt8) {c : Nat} {ch : Chan} (h : w.chans[c]? = some ch) :
    ∃ ch', (afterSeal w c' ch0 pt oracle).chans[c]? = some ch' ∧
      ch'.sealLabel = ch.sealLabel ∧ ch'.openLabel = ch.openLabel := by
  obtain ⟨h1, _⟩ := chan_some h0
  by_cases hk : c' = c
  · subst hk
    have hlt : c' < w.chans.length := by
      rcases Nat.lt_or_ge c' w.chans.length with h' | h'
      · exact h'
      · rw [List.getElem?_eq_none h'] at h1; cases h1
    rw [h1] at h; cases h
    exact ⟨{ ch0 with seq := ch0.seq + 1 }, by simp [afterSeal, World.setChan, hlt], rfl, rfl⟩
  · exact ⟨ch, by simp [afterSeal, World.setChan, List.getElem?_set_ne hk, h], rfl, rfl⟩

/-- labels of existing channels never change -/
theorem labels_apply {w : World} (op : WOp) {c : Nat} {ch : Chan} (h : w.chans[c]? = some ch) :
    ∃ ch', (w.apply op).chans[c]? = some ch' ∧
      ch'.sealLabel = ch.sealLabel ∧ ch'.openLabel = ch.openLabel := by
  have hlt : c < w.chans.length := by
    rcases Nat.lt_or_ge c w.chans.length with h' | h'
    · exact h'
    · rw [List.getElem?_eq_none h'] at h; cases h
  cases op with
  | addChan sl ol st =>
    exact ⟨ch, by simp [World.apply, World.addChan, List.getElem?_append_left hlt, h], rfl, rfl⟩
  | rmChan c' =>
    simp only [World.apply, World.rmChan]
    cases hc' : w.chans[c']? with
    | none => exact ⟨ch, h, rfl, rfl⟩
    | some x =>
      by_cases hk : c' = c
      · subst hk
        rw [hc'] at h; cases h
        exact ⟨{ ch with removed := true }, by simp [World.setChan, hlt], rfl, rfl⟩
      · exact ⟨ch, by simp [World.setChan, List.getElem?_set_ne hk, h], rfl, rfl⟩
  | sealC c' dst pt o =>
    rcases sealC_world w c' dst pt o with e | ⟨s, e⟩
    · simp only [World.apply]; rw [e]; exact ⟨ch, h, rfl, rfl⟩
    · obtain ⟨ch0, c1, _, _, c4⟩ := doSeal_ok e
      simp only [World.apply]; rw [c4]; exact labels_afterSeal c1 pt o h
  | sealIP c' pt o =>
    rcases sealIP_world w c' pt o with e | ⟨s, e⟩
    · simp only [World.apply]; rw [e]; exact ⟨ch, h, rfl, rfl⟩
    · obtain ⟨ch0, c1, _, _, c4⟩ := doSeal_ok e
      simp only [World.apply]; rw [c4]; exact labels_afterSeal c1 pt o h

theorem labels_run {w : World} (ops : List WOp) {c : Nat} {ch : Chan} (h : w.chans[c]? = some ch) :
    ∃ ch', (w.run ops).chans[c]? = some ch' ∧
      ch'.sealLabel = ch.sealLabel ∧ ch'.openLabel = ch.openLabel := by
  induction ops generalizing w ch with
  | nil => exact ⟨ch, h, rfl, rfl⟩
  | cons op ops ih =>
    obtain ⟨ch1, a1, a2, a3⟩ := labels_apply op h
    obtain ⟨ch2, b1, b2, b3⟩ := ih a1
    exact ⟨ch2, b1, by rw [b2, a2], by rw [b3, a3]⟩

end AranyaV.Afc
