import AranyaV.Proofs.Lca
import AranyaV.Proofs.BraidGraph
/-!
# Proofs.StoreGraph — from the segment store to the hypotheses of the braid mechanism theorems

`Abs s g φ ψ`: the spec-level graph `g` is an abstraction of the store `s` — `φ` names every command
location by a command id of `g`, `ψ` decodes ids back, ancestry in `g` between named commands is
ancestry in the store, and everything below a named command is named.  Under such an abstraction
the location `C` returned by `last_common_ancestor` (a point on the spine of every head,
`Proofs.Lca`) satisfies `MechHyp`: with the REAL cut-off test `max_cut ≤ lca.max_cut` and the REAL
same-segment test.
-/
namespace AranyaV.Segments
open AranyaV.Queue (Loc)
open AranyaV.Spec (Graph Reach)

structure Abs (s : Store) (g : Graph) (φ : Loc → Nat) (ψ : Nat → Option Loc) : Prop where
  dec : ∀ l, s.valid l = true → ψ (φ l) = some l
  decv : ∀ i l, ψ i = some l → i = φ l ∧ s.valid l = true
  reach : ∀ a b, s.valid a = true → s.valid b = true → (Reach g (φ a) (φ b) ↔ AncS s a b)
  down : ∀ i b, s.valid b = true → Reach g i (φ b) → ∃ a, s.valid a = true ∧ i = φ a

/-- `location.max_cut <= lca.max_cut` on ids -/
def belowOf (ψ : Nat → Option Loc) (C : Loc) (i : Nat) : Bool :=
  match ψ i with
  | some l => decide (l.mc ≤ C.mc)
  | none => false

/-- `location.same_segment(other.next) && location.max_cut <= other.next.max_cut` on ids -/
def sameSegOf (ψ : Nat → Option Loc) (p o : Nat) : Bool :=
  match ψ p, ψ o with
  | some a, some b => decide (a.seg = b.seg) && decide (a.mc ≤ b.mc)
  | _, _ => false

theorem Abs.inj {s : Store} {g : Graph} {φ : Loc → Nat} {ψ : Nat → Option Loc} (ha : Abs s g φ ψ)
    {a b : Loc} (hav : s.valid a = true) (hbv : s.valid b = true) (h : φ a = φ b) : a = b := by
  have h1 := ha.dec a hav
  have h2 := ha.dec b hbv
  rw [h] at h1; rw [h1] at h2; exact Option.some.inj h2

end AranyaV.Segments
