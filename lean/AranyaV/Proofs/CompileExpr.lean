import AranyaV.Proofs.CompileSub
/-!
C22: the code-at-pc simulation, by induction on the evaluator's fuel.
-/
namespace AranyaV.Lang
open AranyaV.Gen.Lang
variable (S : Sim)

theorem exprSim_succ {n : Nat} (hP : ProgOk S) (ihE : ExprSim S n) (ihA : ArgsSim S n) (ihSs : StmtsSim S n)
    (ihB : BodySim S n) (ihF : FieldsSim S n) (ihSel : SelectSim S n) : ExprSim S (n + 1) := by
  intro e env log wp c junk base fr K hsup hcode hdefs
  cases e with
  | unit =>
    simp only [compileExpr, codeAt_single, res] at hcode
    simp only [evalExpr, Outcome, compileExpr, List.length_singleton]
    exact Steps.one (step_const hcode)
  | int i =>
    simp only [compileExpr, codeAt_single, res] at hcode
    simp only [evalExpr, Outcome, compileExpr, List.length_singleton]
    exact Steps.one (step_const hcode)
  | str i =>
    simp only [compileExpr, codeAt_single, res] at hcode
    simp only [evalExpr, Outcome, compileExpr, List.length_singleton]
    exact Steps.one (step_const hcode)
  | bool i =>
    simp only [compileExpr, codeAt_single, res] at hcode
    simp only [evalExpr, Outcome, compileExpr, List.length_singleton]
    exact Steps.one (step_const hcode)
  | none =>
    simp only [compileExpr, codeAt_single, res] at hcode
    simp only [evalExpr, Outcome, compileExpr, List.length_singleton]
    exact Steps.one (step_const hcode)
  | enumRef a b v =>
    simp only [compileExpr, codeAt_single, res] at hcode
    simp only [evalExpr, Outcome, compileExpr, List.length_singleton]
    exact Steps.one (step_const hcode)
  | todo =>
    simp only [compileExpr, codeAt_single, res] at hcode
    simp only [evalExpr, Outcome]
    exact ⟨_, ⟨_, Steps.refl _, step_exit hcode⟩, rfl⟩
  | var x =>
    simp only [compileExpr, codeAt_single, res] at hcode
    simp only [evalExpr, compileExpr, List.length_singleton]
    cases hv : lookupVar S.m.p env x with
    | none => simp [Outcome]
    | some v => simp only [Outcome]; exact Steps.one (step_get hcode hv)
  | not e =>
    simp only [supE] at hsup
    simp only [compileExpr, codeAt_append, codeAt_single, res] at hcode hdefs
    have ih := ihE e env log wp c junk base fr K hsup hcode.1 hdefs
    simp only [evalExpr, compileExpr]
    cases hr : evalExpr S.m.p n env log e with
    | val v l =>
      rw [hr] at ih
      cases v <;> simp only [Outcome] <;> try trivial
      simp only [Outcome] at ih
      refine ih.trans ?_
      normpc
      exact Steps.one (step_not hcode.2)
    | _ => first | (rw [hr] at ih; exact ih) | trivial
  | some e =>
    simp only [supE] at hsup
    simp only [compileExpr, codeAt_append, codeAt_single, res] at hcode hdefs
    have ih := ihE e env log wp c junk base fr K hsup hcode.1 hdefs
    simp only [evalExpr, compileExpr]
    cases hr : evalExpr S.m.p n env log e with
    | val v l =>
      rw [hr] at ih
      simp only [Outcome] at ih ⊢
      refine ih.trans ?_
      normpc
      exact Steps.one (step_wrap hcode.2)
    | _ => first | (rw [hr] at ih; exact ih) | trivial
  | ok e =>
    simp only [supE] at hsup
    simp only [compileExpr, codeAt_append, codeAt_single, res] at hcode hdefs
    have ih := ihE e env log wp c junk base fr K hsup hcode.1 hdefs
    simp only [evalExpr, compileExpr]
    cases hr : evalExpr S.m.p n env log e with
    | val v l =>
      rw [hr] at ih
      simp only [Outcome] at ih ⊢
      refine ih.trans ?_
      normpc
      exact Steps.one (step_wrap hcode.2)
    | _ => first | (rw [hr] at ih; exact ih) | trivial
  | err e =>
    simp only [supE] at hsup
    simp only [compileExpr, codeAt_append, codeAt_single, res] at hcode hdefs
    have ih := ihE e env log wp c junk base fr K hsup hcode.1 hdefs
    simp only [evalExpr, compileExpr]
    cases hr : evalExpr S.m.p n env log e with
    | val v l =>
      rw [hr] at ih
      simp only [Outcome] at ih ⊢
      refine ih.trans ?_
      normpc
      exact Steps.one (step_wrap hcode.2)
    | _ => first | (rw [hr] at ih; exact ih) | trivial
  | ret e =>
    simp only [supE] at hsup
    simp only [compileExpr, codeAt_append, codeAt_cons, CodeAt.nil, and_true, res] at hcode hdefs
    have ih := ihE e env log wp c junk base fr K hsup hcode.1 hdefs
    simp only [evalExpr, compileExpr]
    cases hr : evalExpr S.m.p n env log e with
    | val v l =>
      rw [hr] at ih
      simp only [Outcome] at ih ⊢
      exact ⟨env, _, ih.trans (Steps.one (step_restoreSP hcode.2.1)), hcode.2.2⟩
    | _ => first | (rw [hr] at ih; exact ih) | trivial
  | is e sm =>
    simp only [supE] at hsup
    cases sm with
    | true =>
      simp only [compileExpr, codeAt_append, if_true, codeAt_single, res] at hcode hdefs
      have ih := ihE e env log wp c junk base fr K hsup hcode.1 hdefs
      simp only [evalExpr, compileExpr, if_true]
      cases hr : evalExpr S.m.p n env log e with
      | val v l =>
        rw [hr] at ih
        cases v <;> simp only [Outcome] <;> try trivial
        all_goals
          simp only [Outcome] at ih
          refine ih.trans ?_
          normpc
          exact Steps.one (step_is hcode.2)
      | _ => first | (rw [hr] at ih; exact ih) | trivial
    | false =>
      simp only [compileExpr, codeAt_append, codeAt_cons, CodeAt.nil, and_true, res, Bool.false_eq_true, if_false] at hcode hdefs
      have ih := ihE e env log wp c junk base fr K hsup hcode.1 hdefs
      simp only [evalExpr, compileExpr, Bool.false_eq_true, if_false]
      cases hr : evalExpr S.m.p n env log e with
      | val v l =>
        rw [hr] at ih
        cases v <;> simp only [Outcome] <;> try trivial
        all_goals
          simp only [Outcome] at ih
          refine ih.trans ?_
          normpc
          exact (Steps.one (step_is hcode.2.1)).trans (Steps.one (step_not hcode.2.2))
      | _ => first | (rw [hr] at ih; exact ih) | trivial
  | dot e f =>
    simp only [supE] at hsup
    simp only [compileExpr, codeAt_append, codeAt_single, res] at hcode hdefs
    have ih := ihE e env log wp c junk base fr K hsup hcode.1 hdefs
    simp only [evalExpr, compileExpr]
    cases hr : evalExpr S.m.p n env log e with
    | val v l =>
      rw [hr] at ih
      cases v <;> simp only [Outcome] <;> try trivial
      rename_i sname fs
      cases hg : getField fs f with
      | none => trivial
      | some w =>
        simp only [Outcome] at ih ⊢
        refine ih.trans ?_
        normpc
        exact Steps.one (step_structGet hcode.2 hg)
    | _ => first | (rw [hr] at ih; exact ih) | trivial
  | cast e to =>
    simp only [supE] at hsup
    simp only [compileExpr, codeAt_append, codeAt_single, res] at hcode hdefs
    have ih := ihE e env log wp c junk base fr K hsup hcode.1 hdefs
    simp only [evalExpr, compileExpr]
    cases hr : evalExpr S.m.p n env log e with
    | val v l =>
      rw [hr] at ih
      cases v <;> simp only [Outcome] <;> try trivial
      rename_i sname fs
      cases hd : S.m.p.structDef to with
      | none => trivial
      | some d =>
        dsimp only
        by_cases hc : castOk fs d = true
        · simp only [hc, if_true, Outcome] at ih ⊢
          refine ih.trans ?_
          normpc
          exact Steps.one (step_cast hcode.2 hd hc)
        · simp only [hc, Outcome]; trivial
    | _ => first | (rw [hr] at ih; exact ih) | trivial
  | eq a b =>
    simp only [supE, Bool.and_eq_true] at hsup
    simp only [compileExpr, codeAt_append, codeAt_cons, CodeAt.nil, and_true, res] at hcode
    simp only [compileExpr, defsOk_append] at hdefs
    have iha := ihE a env log wp c junk base fr K hsup.1 hcode.1.1 hdefs.1
    simp only [evalExpr, compileExpr]
    cases hra : evalExpr S.m.p n env log a with
    | val x l =>
      rw [hra] at iha; simp only [Outcome] at iha
      have ihb := ihE b env l _ _ (x :: junk) base fr K hsup.2 hcode.1.2 hdefs.2
      dsimp only
      cases hrb : evalExpr S.m.p n env l b with
      | val y l' =>
        rw [hrb] at ihb; simp only [Outcome] at ihb
        dsimp only
        normpc at hcode
        simp only [Outcome]
        refine iha.trans (ihb.trans ?_)
        normpc
        exact Steps.one (step_eq hcode.2)
      | _ => first | (rw [hrb] at ihb; exact Outcome.of_steps iha ihb) | trivial
    | _ => first | (rw [hra] at iha; exact iha) | trivial
  | ne a b =>
    simp only [supE, Bool.and_eq_true] at hsup
    simp only [compileExpr, codeAt_append, codeAt_cons, CodeAt.nil, and_true, res] at hcode
    simp only [compileExpr, defsOk_append] at hdefs
    have iha := ihE a env log wp c junk base fr K hsup.1 hcode.1.1 hdefs.1
    simp only [evalExpr, compileExpr]
    cases hra : evalExpr S.m.p n env log a with
    | val x l =>
      rw [hra] at iha; simp only [Outcome] at iha
      have ihb := ihE b env l _ _ (x :: junk) base fr K hsup.2 hcode.1.2 hdefs.2
      dsimp only
      cases hrb : evalExpr S.m.p n env l b with
      | val y l' =>
        rw [hrb] at ihb; simp only [Outcome] at ihb
        dsimp only
        normpc at hcode
        simp only [Outcome]
        refine iha.trans (ihb.trans ?_)
        normpc
        exact (Steps.one (step_eq hcode.2.1)).trans (Steps.one (step_not hcode.2.2))
      | _ => first | (rw [hrb] at ihb; exact Outcome.of_steps iha ihb) | trivial
    | _ => first | (rw [hra] at iha; exact iha) | trivial
  | gt a b =>
    simp only [supE, Bool.and_eq_true] at hsup
    simp only [compileExpr, codeAt_append, codeAt_cons, CodeAt.nil, and_true, res] at hcode
    simp only [compileExpr, defsOk_append] at hdefs
    have iha := ihE a env log wp c junk base fr K hsup.1 hcode.1.1 hdefs.1
    simp only [evalExpr, compileExpr]
    cases hra : evalExpr S.m.p n env log a with
    | val x l =>
      rw [hra] at iha; simp only [Outcome] at iha
      have ihb := ihE b env l _ _ (x :: junk) base fr K hsup.2 hcode.1.2 hdefs.2
      dsimp only
      cases hrb : evalExpr S.m.p n env l b with
      | val y l' =>
        rw [hrb] at ihb; simp only [Outcome] at ihb
        dsimp only
        normpc at hcode
        cases hc : cmpInts (fun i j => decide (i > j)) x y with
        | none => trivial
        | some v =>
          obtain ⟨i, j, rfl, rfl, rfl⟩ := cmpInts_some hc
          simp only [Outcome]
          refine iha.trans (ihb.trans ?_)
          normpc
          exact Steps.one (step_gt hcode.2)
      | _ => first | (rw [hrb] at ihb; exact Outcome.of_steps iha ihb) | trivial
    | _ => first | (rw [hra] at iha; exact iha) | trivial
  | lt a b =>
    simp only [supE, Bool.and_eq_true] at hsup
    simp only [compileExpr, codeAt_append, codeAt_cons, CodeAt.nil, and_true, res] at hcode
    simp only [compileExpr, defsOk_append] at hdefs
    have iha := ihE a env log wp c junk base fr K hsup.1 hcode.1.1 hdefs.1
    simp only [evalExpr, compileExpr]
    cases hra : evalExpr S.m.p n env log a with
    | val x l =>
      rw [hra] at iha; simp only [Outcome] at iha
      have ihb := ihE b env l _ _ (x :: junk) base fr K hsup.2 hcode.1.2 hdefs.2
      dsimp only
      cases hrb : evalExpr S.m.p n env l b with
      | val y l' =>
        rw [hrb] at ihb; simp only [Outcome] at ihb
        dsimp only
        normpc at hcode
        cases hc : cmpInts (fun i j => decide (i < j)) x y with
        | none => trivial
        | some v =>
          obtain ⟨i, j, rfl, rfl, rfl⟩ := cmpInts_some hc
          simp only [Outcome]
          refine iha.trans (ihb.trans ?_)
          normpc
          exact Steps.one (step_lt hcode.2)
      | _ => first | (rw [hrb] at ihb; exact Outcome.of_steps iha ihb) | trivial
    | _ => first | (rw [hra] at iha; exact iha) | trivial
  | ge a b =>
    simp only [supE, Bool.and_eq_true] at hsup
    simp only [compileExpr, codeAt_append, codeAt_cons, CodeAt.nil, and_true, res] at hcode
    simp only [compileExpr, defsOk_append] at hdefs
    have iha := ihE a env log wp c junk base fr K hsup.1 hcode.1.1 hdefs.1
    simp only [evalExpr, compileExpr]
    cases hra : evalExpr S.m.p n env log a with
    | val x l =>
      rw [hra] at iha; simp only [Outcome] at iha
      have ihb := ihE b env l _ _ (x :: junk) base fr K hsup.2 hcode.1.2 hdefs.2
      dsimp only
      cases hrb : evalExpr S.m.p n env l b with
      | val y l' =>
        rw [hrb] at ihb; simp only [Outcome] at ihb
        dsimp only
        normpc at hcode
        cases hc : cmpInts (fun i j => decide (i ≥ j)) x y with
        | none => trivial
        | some v =>
          obtain ⟨i, j, rfl, rfl, rfl⟩ := cmpInts_some hc
          simp only [Outcome]
          refine iha.trans (ihb.trans ?_)
          normpc
          have hb : decide (i ≥ j) = !decide (i < j) := by
            by_cases h : i < j <;> simp [h, Int.not_le.mpr, Int.not_lt.mp]
          rw [hb]
          exact (Steps.one (step_lt hcode.2.1)).trans (Steps.one (step_not hcode.2.2))
      | _ => first | (rw [hrb] at ihb; exact Outcome.of_steps iha ihb) | trivial
    | _ => first | (rw [hra] at iha; exact iha) | trivial
  | le a b =>
    simp only [supE, Bool.and_eq_true] at hsup
    simp only [compileExpr, codeAt_append, codeAt_cons, CodeAt.nil, and_true, res] at hcode
    simp only [compileExpr, defsOk_append] at hdefs
    have iha := ihE a env log wp c junk base fr K hsup.1 hcode.1.1 hdefs.1
    simp only [evalExpr, compileExpr]
    cases hra : evalExpr S.m.p n env log a with
    | val x l =>
      rw [hra] at iha; simp only [Outcome] at iha
      have ihb := ihE b env l _ _ (x :: junk) base fr K hsup.2 hcode.1.2 hdefs.2
      dsimp only
      cases hrb : evalExpr S.m.p n env l b with
      | val y l' =>
        rw [hrb] at ihb; simp only [Outcome] at ihb
        dsimp only
        normpc at hcode
        cases hc : cmpInts (fun i j => decide (i ≤ j)) x y with
        | none => trivial
        | some v =>
          obtain ⟨i, j, rfl, rfl, rfl⟩ := cmpInts_some hc
          simp only [Outcome]
          refine iha.trans (ihb.trans ?_)
          normpc
          have hb : decide (i ≤ j) = !decide (i > j) := by
            by_cases h : i > j <;> simp [h, Int.not_le.mpr, Int.not_lt.mp]
          rw [hb]
          exact (Steps.one (step_gt hcode.2.1)).trans (Steps.one (step_not hcode.2.2))
      | _ => first | (rw [hrb] at ihb; exact Outcome.of_steps iha ihb) | trivial
    | _ => first | (rw [hra] at iha; exact iha) | trivial
  | and a b => exact sim_and S ihE a b env log wp c junk base fr K hsup hcode hdefs
  | or a b => exact sim_or S ihE a b env log wp c junk base fr K hsup hcode hdefs
  | coalesce a b => exact sim_coalesce S ihE a b env log wp c junk base fr K hsup hcode hdefs
  | ite cnd t f => exact sim_ite S ihE cnd t f env log wp c junk base fr K hsup hcode hdefs
  | call f args =>
    cases hb : isBuiltin f with
    | true => exact sim_builtin S ihA f args hb env log wp c junk base fr K hsup hcode hdefs
    | false => exact sim_call S hP ihA ihB f args hb env log wp c junk base fr K hsup hcode hdefs
  | ffi mname fname ids args => exact sim_ffi S hP ihA mname fname ids args env log wp c junk base fr K hsup hcode hdefs
  | struct name fields srcs => exact sim_struct S ihF name fields srcs env log wp c junk base fr K hsup hcode hdefs
  | mtch scrut arms => exact sim_match S ihE ihSel scrut arms env log wp c junk base fr K hsup hcode hdefs
  | block ss e => exact sim_block S ihE ihSs ss e env log wp c junk base fr K hsup hcode hdefs
  | substruct e sub => exact sim_substruct S hP ihE e sub env log wp c junk base fr K hsup hcode hdefs

theorem sim_all (hP : ProgOk S) : ∀ n, AllSim S n
  | 0 => sim_zero S
  | n + 1 =>
    let ih := sim_all hP n
    { e := exprSim_succ S hP ih.e ih.a ih.ss ih.body ih.fl ih.sel
      a := argsSim_succ S ih.e ih.a
      ss := stmtsSim_succ S ih.s ih.ss
      s := stmtSim_succ S ih.e ih.br (sim_matchS S ih.e ih.ss ih.sel)
      sc := scopedSim_succ S ih.ss
      br := branchesSim_succ S ih.e ih.sc ih.br
      body := bodySim_succ S hP ih.ss
      fl := fieldsSim_succ S ih.e ih.fl
      pv := patValsSim_succ S ih.e ih.pv
      sel := selectSim_succ S ih.pv ih.sel }

/-- Function level: running `f` from the harness's initial state. -/
theorem fun_sim (hP : ProgOk S) (n f : Nat) (args : List Val) (entry : Nat)
    (hentry : lookupLabel S.labels (.fn f) = some entry) :
    match evalFn S.m.p n f args with
    | .val v l => ∃ t, ExitsWith S.m (VM.init entry args) .Normal t ∧ t.stack = [v] ∧ t.log = l
    | .exit r l => ∃ t, ExitsWith S.m (VM.init entry args) r t ∧ t.log = l
    | .ffiErr l => ErrorsWith S.m (VM.init entry args) .ffi l
    | _ => True := by
  have h := (sim_all S hP n).body f args [] [] [] [] entry hentry
  simp only [evalFn, VM.init, List.append_nil] at h ⊢
  cases hr : evalCall S.m.p n f args [] with
  | val v l =>
    rw [hr] at h; simp only [BodyOutcome] at h
    obtain ⟨envJ, pcR, hst, hret⟩ := h
    exact ⟨_, ⟨_, hst, step_return_top hret⟩, rfl, rfl⟩
  | exit r l => rw [hr] at h; exact h
  | ffiErr l => rw [hr] at h; exact h
  | ret v l => trivial
  | stuck => trivial
  | oof => trivial

end AranyaV.Lang
