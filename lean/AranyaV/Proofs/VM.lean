import AranyaV.Model.VM
/-!
# Helper lemmas for C25: a small Hoare-style calculus for the VM monad

`SafeQ m Q`: started in a well-formed run state, `m` does not panic, and if it completes normally
the run state is again well-formed and the result satisfies `Q`.
-/
namespace AranyaV.VM

/-- run-state invariant: what the Rust types/`step` itself guarantee about reachable states -/
structure WFs (s : RunState) : Prop where
  /-- `heapless::Vec<Value, STACK_SIZE>` -/
  stack : s.stack.length ≤ stackSize
  /-- `call_state` only ever holds old program counters (`< progmem.len()`) and stack depths -/
  calls : ∀ x ∈ s.callState, x < usizeMax

/-- the result is not a panic; a normal result re-establishes the invariant and satisfies `Q` -/
def Res.safe {α} (Q : α → Prop) : Res α → Prop
  | .ok a s' => WFs s' ∧ Q a
  | .err _ _ => True
  | .panic => False

@[simp] theorem Res.safe_ok {α} (Q : α → Prop) (a : α) (s : RunState) :
    (Res.ok a s).safe Q = (WFs s ∧ Q a) := rfl
@[simp] theorem Res.safe_err {α} (Q : α → Prop) (e : Err) (s : RunState) :
    (Res.err e s : Res α).safe Q = True := rfl
@[simp] theorem Res.safe_panic {α} (Q : α → Prop) : (Res.panic : Res α).safe Q = False := rfl

def SafeQ {α} (m : M α) (Q : α → Prop) : Prop := ∀ s, WFs s → (m s).safe Q

abbrev T {α} : α → Prop := fun _ => True

theorem stackSize_lt_usizeMax : stackSize < usizeMax := by decide

@[simp] theorem pure_eq {α} (a : α) : (pure a : M α) = M.pure a := rfl
@[simp] theorem bind_eq {α β} (m : M α) (f : α → M β) : (m >>= f) = M.bind m f := rfl

theorem safe_pure {α} {Q : α → Prop} {a : α} (h : Q a) : SafeQ (M.pure a) Q := by
  intro s hs; exact ⟨hs, h⟩

theorem safe_throw {α} {Q : α → Prop} (e : Err) : SafeQ (throw e : M α) Q := by
  intro s _; trivial

theorem safe_throwNoPos {α} {Q : α → Prop} (e : Err) : SafeQ (throwNoPos e : M α) Q := by
  intro s _; trivial

theorem safe_noPos {α} {m : M α} {Q : α → Prop} (h : SafeQ m Q) : SafeQ (noPos m) Q := by
  intro s hs
  have := h s hs
  unfold noPos
  cases hm : m s with
  | ok a s' => rw [hm] at this; exact this
  | err e s' => trivial
  | panic => rw [hm] at this; exact this.elim

theorem safe_bind {α β} {m : M α} {f : α → M β} {Q' : α → Prop} {Q : β → Prop}
    (h1 : SafeQ m Q') (h2 : ∀ a, Q' a → SafeQ (f a) Q) : SafeQ (M.bind m f) Q := by
  intro s hs
  have := h1 s hs
  unfold M.bind
  cases hm : m s with
  | ok a s' => rw [hm] at this; exact h2 a this.2 s' this.1
  | err e s' => trivial
  | panic => rw [hm] at this; exact this.elim

theorem safe_mono {α} {m : M α} {Q Q' : α → Prop} (h : SafeQ m Q) (hq : ∀ a, Q a → Q' a) :
    SafeQ m Q' := by
  intro s hs
  have := h s hs
  cases hm : m s with
  | ok a s' => rw [hm] at this; exact ⟨this.1, hq a this.2⟩
  | err e s' => trivial
  | panic => rw [hm] at this; exact this.elim

theorem safe_liftE {α} (x : Except Err α) : SafeQ (liftE x) T := by
  intro s hs; unfold liftE; cases x <;> simp [hs]

/-! ### stack primitives -/

theorem safe_push (v : Value) : SafeQ (push v) T := by
  intro s hs; unfold push
  split
  · refine ⟨⟨?_, hs.calls⟩, trivial⟩
    simp only [List.length_cons]; omega
  · trivial

theorem safe_popValue : SafeQ popValue T := by
  intro s hs; unfold popValue
  split
  · trivial
  · next v r h =>
    refine ⟨⟨?_, hs.calls⟩, trivial⟩
    have := hs.stack; rw [h] at this; simp only [List.length_cons] at this; simp only; omega

theorem safe_popIgnore : SafeQ popIgnore T := by
  intro s hs; unfold popIgnore
  refine ⟨⟨?_, hs.calls⟩, trivial⟩
  have := hs.stack; simp only [List.length_tail]; omega

theorem safe_peekValue : SafeQ peekValue T := by
  intro s hs; unfold peekValue
  split
  · trivial
  · exact ⟨hs, trivial⟩

theorem safe_replaceTop (v : Value) : SafeQ (replaceTop v) T := by
  intro s hs; unfold replaceTop
  split
  · exact ⟨hs, trivial⟩
  · next x r h =>
    refine ⟨⟨?_, hs.calls⟩, trivial⟩
    have := hs.stack; rw [h] at this; simpa using this

theorem safe_stackLen : SafeQ stackLen (fun n => n ≤ stackSize) := by
  intro s hs; exact ⟨hs, hs.stack⟩

theorem safe_truncateStack (n : Nat) : SafeQ (truncateStack n) T := by
  intro s hs; unfold truncateStack
  refine ⟨⟨?_, hs.calls⟩, trivial⟩
  have := hs.stack; simp only [List.length_drop]; omega

/-! ### call state, context, iterators, I/O -/

theorem safe_pushCall {v : Nat} (h : v < usizeMax) : SafeQ (pushCall v) T := by
  intro s hs; unfold pushCall
  refine ⟨⟨hs.stack, ?_⟩, trivial⟩
  intro x hx
  simp only [List.mem_cons] at hx
  rcases hx with rfl | hx
  · exact h
  · exact hs.calls x hx

theorem safe_popCall : SafeQ popCall (fun o => ∀ x, o = some x → x < usizeMax) := by
  intro s hs; unfold popCall
  split
  · exact ⟨hs, by simp⟩
  · next v r h =>
    refine ⟨⟨hs.stack, ?_⟩, ?_⟩
    · intro x hx; exact hs.calls x (by rw [h]; exact List.mem_cons_of_mem _ hx)
    · intro x hx; cases hx; exact hs.calls v (by rw [h]; exact List.mem_cons_self)

theorem safe_callEmpty : SafeQ callEmpty T := fun _ hs => ⟨hs, trivial⟩
theorem safe_getCtx : SafeQ getCtx T := fun _ hs => ⟨hs, trivial⟩
theorem safe_setCtx (c : Ctx) : SafeQ (setCtx c) T := fun _ hs => ⟨⟨hs.stack, hs.calls⟩, trivial⟩
theorem safe_pushIter (r : List Row) : SafeQ (pushIter r) T := fun _ hs => ⟨⟨hs.stack, hs.calls⟩, trivial⟩
theorem safe_popIter : SafeQ popIter T := fun _ hs => ⟨⟨hs.stack, hs.calls⟩, trivial⟩

theorem safe_iterNext : SafeQ iterNext T := by
  intro s hs; unfold iterNext
  split
  · exact ⟨hs, trivial⟩
  · exact ⟨hs, trivial⟩
  · exact ⟨⟨hs.stack, hs.calls⟩, trivial⟩

theorem safe_nextIo : SafeQ nextIo T := by
  intro s hs; unfold nextIo
  split
  · exact ⟨hs, trivial⟩
  · exact ⟨⟨hs.stack, hs.calls⟩, trivial⟩

/-! ### scopes -/

theorem safe_scopeGet (g : List (Nat × Value)) (k : Nat) : SafeQ (scopeGet g k) T := by
  intro s hs; unfold scopeGet
  simp only
  split
  · exact ⟨hs, trivial⟩
  · split
    · exact ⟨hs, trivial⟩
    · trivial

theorem safe_scopeSet (g : List (Nat × Value)) (k : Nat) (v : Value) : SafeQ (scopeSet g k v) T := by
  intro s hs; unfold scopeSet
  split
  · trivial
  · split
    · trivial
    · split
      · trivial
      · split
        · trivial
        · exact ⟨⟨hs.stack, hs.calls⟩, trivial⟩

theorem safe_enterFunction : SafeQ enterFunction T := fun _ hs => ⟨⟨hs.stack, hs.calls⟩, trivial⟩

theorem safe_exitFunction : SafeQ exitFunction T := by
  intro s hs; unfold exitFunction
  split
  · trivial
  · exact ⟨⟨hs.stack, hs.calls⟩, trivial⟩

theorem safe_enterBlock : SafeQ enterBlock T := by
  intro s hs; unfold enterBlock
  split
  · trivial
  · exact ⟨⟨hs.stack, hs.calls⟩, trivial⟩

theorem safe_exitBlock : SafeQ exitBlock T := by
  intro s hs; unfold exitBlock
  split
  · trivial
  · trivial
  · exact ⟨⟨hs.stack, hs.calls⟩, trivial⟩

/-- syntax-directed prover for `SafeQ` goals -/
syntax "safe_tac" : tactic
macro_rules
  | `(tactic| safe_tac) => `(tactic|
    first
    | assumption
    | exact safe_throw _
    | exact safe_throwNoPos _
    | exact safe_push _
    | exact safe_popValue
    | exact safe_popIgnore
    | exact safe_peekValue
    | exact safe_replaceTop _
    | exact safe_stackLen
    | exact safe_truncateStack _
    | exact safe_popCall
    | exact safe_callEmpty
    | exact safe_getCtx
    | exact safe_setCtx _
    | exact safe_pushIter _
    | exact safe_popIter
    | exact safe_iterNext
    | exact safe_nextIo
    | exact safe_scopeGet _ _
    | exact safe_scopeSet _ _ _
    | exact safe_enterFunction
    | exact safe_exitFunction
    | exact safe_enterBlock
    | exact safe_exitBlock
    | exact safe_liftE _
    | (apply safe_pure; first | trivial | assumption | (simp_all; done))
    | (apply safe_pushCall; first | assumption | omega)
    | (apply safe_noPos; safe_tac)
    | (apply safe_bind
       · safe_tac
       · intro _ _; safe_tac)
    | (split <;> safe_tac))

theorem safe_popInt : SafeQ popInt T := by
  unfold popInt; simp only [bind_eq, pure_eq]; safe_tac
theorem safe_popBool : SafeQ popBool T := by
  unfold popBool; simp only [bind_eq, pure_eq]; safe_tac
theorem safe_popStruct : SafeQ popStruct T := by
  unfold popStruct; simp only [bind_eq, pure_eq]; safe_tac
theorem safe_popFact : SafeQ popFact T := by
  unfold popFact; simp only [bind_eq, pure_eq]; safe_tac
theorem safe_popIdent : SafeQ popIdent T := by
  unfold popIdent; simp only [bind_eq, pure_eq]; safe_tac
theorem safe_popBytes : SafeQ popBytes T := by
  unfold popBytes; simp only [bind_eq, pure_eq]; safe_tac
theorem safe_popHV : SafeQ popHV T := by
  unfold popHV; simp only [bind_eq, pure_eq]; safe_tac
theorem safe_ioUnit : SafeQ ioUnit T := by
  unfold ioUnit; simp only [bind_eq, pure_eq]; safe_tac
theorem safe_ioQuery : SafeQ ioQuery T := by
  unfold ioQuery; simp only [bind_eq, pure_eq]; safe_tac
theorem safe_ioCodec (e : Err) : SafeQ (ioCodec e) T := by
  unfold ioCodec; simp only [bind_eq, pure_eq]; safe_tac

macro_rules
  | `(tactic| safe_tac) => `(tactic|
    first
    | exact safe_popInt
    | exact safe_popBool
    | exact safe_popStruct
    | exact safe_popFact
    | exact safe_popIdent
    | exact safe_popBytes
    | exact safe_popHV
    | exact safe_ioUnit
    | exact safe_ioQuery
    | exact safe_ioCodec _)

theorem safe_popPairs (n : Nat) (acc : List (Nat × Value)) : SafeQ (popPairs n acc) T := by
  induction n generalizing acc with
  | zero => unfold popPairs; simp only [pure_eq]; safe_tac
  | succ n ih =>
    unfold popPairs; simp only [bind_eq]
    apply safe_bind
    · safe_tac
    · intro _ _
      apply safe_bind
      · safe_tac
      · intro _ _; exact ih _

theorem safe_popIdents (n : Nat) (acc : List Nat) : SafeQ (popIdents n acc) T := by
  induction n generalizing acc with
  | zero => unfold popIdents; simp only [pure_eq]; safe_tac
  | succ n ih =>
    unfold popIdents; simp only [bind_eq]
    apply safe_bind
    · safe_tac
    · intro k _; exact ih _

theorem safe_pushFields (names : List Nat) (f : Fields) : SafeQ (pushFields names f) T := by
  induction names generalizing f with
  | nil => unfold pushFields; simp only [pure_eq]; safe_tac
  | cons k r ih =>
    unfold pushFields; simp only [bind_eq]
    split
    · safe_tac
    · apply safe_bind
      · safe_tac
      · intro _ _
        apply safe_bind
        · safe_tac
        · intro _ _; exact ih _

theorem safe_applyOps (ops : List StackOp) : SafeQ (applyOps ops) T := by
  induction ops with
  | nil => unfold applyOps; simp only [pure_eq]; safe_tac
  | cons o r ih =>
    cases o with
    | pop =>
      unfold applyOps; simp only [bind_eq]
      apply safe_bind
      · safe_tac
      · intro _ _; exact ih
    | push v =>
      unfold applyOps
      intro s hs
      have hp := safe_push v s hs
      cases h : push v s with
      | ok a s' => rw [h] at hp; simp only [h]; exact ih s' hp.1
      | err e s' =>
        simp only [h]
        -- a failed push leaves the state unchanged
        have : s' = s := by
          unfold push at h; split at h <;> simp_all
        rw [this]; exact ih s hs
      | panic => rw [h] at hp; exact hp.elim

theorem countRows_ne_none (qk : List (Nat × HV)) (qv : Fields) (limit : Int) (hl : limit ≤ i64Max)
    (rows : List Row) (count : Int) : countRows qk qv limit rows count ≠ none := by
  induction rows generalizing count with
  | nil => simp [countRows]
  | cons r rest ih =>
    unfold countRows
    split
    · split
      · simp
      · split
        · split
          · exact ih _
          · omega
        · exact ih _
    · simp

macro_rules
  | `(tactic| safe_tac) => `(tactic|
    first
    | exact safe_popPairs _ _
    | exact safe_popIdents _ _
    | exact safe_pushFields _ _
    | exact safe_applyOps _)

/-- operands fit their Rust types (`FactCount(i64)`) -/
def Instr.operandsFit : Instr → Prop
  | .FactCount limit => limit ≤ i64Max
  | _ => True

/-- what `step` needs to know about the way an instruction body ends -/
def QC : Ctl → Prop
  | .retTo p => p < usizeMax
  | _ => True

macro_rules
  | `(tactic| safe_tac) => `(tactic| (apply safe_pure; simp_all [QC]; done))

theorem safe_arith_add (a b : Int) : SafeQ (arith .Add a b) T := by
  simp only [arith]; safe_tac
theorem safe_arith_sub (a b : Int) : SafeQ (arith .Sub a b) T := by
  simp only [arith]; safe_tac
theorem safe_sat_add (a b : Int) : SafeQ (satArith .SaturatingAdd a b) T := by
  simp only [satArith]; safe_tac
theorem safe_sat_sub (a b : Int) : SafeQ (satArith .SaturatingSub a b) T := by
  simp only [satArith]; safe_tac
theorem safe_compare_gt (a b : Value) : SafeQ (compare .Gt a b) T := by
  simp only [compare]; safe_tac
theorem safe_compare_lt (a b : Value) : SafeQ (compare .Lt a b) T := by
  simp only [compare]; safe_tac
theorem safe_compare_eq (a b : Value) : SafeQ (compare .Eq a b) T := by
  simp only [compare]; safe_tac
theorem safe_jumpTo (t : Target) : SafeQ (jumpTo t) QC := by
  unfold jumpTo; safe_tac
theorem safe_execNextLast (h : nextLastTodo = false) : SafeQ execNextLast QC := by
  unfold execNextLast execNextLastWith; rw [h]; exact safe_throw _
theorem safe_mstructAlloc (h : mstructSetCapUnbounded = false) (n : Nat) : SafeQ (mstructAlloc n) T := by
  unfold mstructAlloc mstructAllocWith; rw [h]; simp only [Bool.false_and]; exact safe_pure trivial
theorem safe_setPc (p : Nat) : SafeQ (setPc p) T := fun _ hs => ⟨⟨hs.stack, hs.calls⟩, trivial⟩

macro_rules
  | `(tactic| safe_tac) => `(tactic|
    first
    | exact safe_arith_add _ _
    | exact safe_arith_sub _ _
    | exact safe_sat_add _ _
    | exact safe_sat_sub _ _
    | exact safe_compare_gt _ _
    | exact safe_compare_lt _ _
    | exact safe_compare_eq _ _
    | exact safe_jumpTo _
    | exact safe_setPc _
    | exact safe_execNextLast ‹_›
    | exact safe_mstructAlloc ‹_› _)

theorem checkedInc_ne_none {x : Nat} (h : x < usizeMax) : checkedInc x ≠ none := by
  unfold checkedInc; split <;> simp; omega

theorem exec_safe_Const (m : Machine) (pc : Nat) (hpc : pc < usizeMax) (hnl : nextLastTodo = false) (hcap : mstructSetCapUnbounded = false) (a0 : _) :
    SafeQ (exec m pc (.Const a0)) QC := by
  simp only [exec, bind_eq, pure_eq]; safe_tac

theorem exec_safe_Identifier (m : Machine) (pc : Nat) (hpc : pc < usizeMax) (hnl : nextLastTodo = false) (hcap : mstructSetCapUnbounded = false) (a0 : _) :
    SafeQ (exec m pc (.Identifier a0)) QC := by
  simp only [exec, bind_eq, pure_eq]; safe_tac

theorem exec_safe_Def (m : Machine) (pc : Nat) (hpc : pc < usizeMax) (hnl : nextLastTodo = false) (hcap : mstructSetCapUnbounded = false) (a0 : _) :
    SafeQ (exec m pc (.Def a0)) QC := by
  simp only [exec, bind_eq, pure_eq]; safe_tac

theorem exec_safe_Get (m : Machine) (pc : Nat) (hpc : pc < usizeMax) (hnl : nextLastTodo = false) (hcap : mstructSetCapUnbounded = false) (a0 : _) :
    SafeQ (exec m pc (.Get a0)) QC := by
  simp only [exec, bind_eq, pure_eq]; safe_tac

theorem exec_safe_Dup (m : Machine) (pc : Nat) (hpc : pc < usizeMax) (hnl : nextLastTodo = false) (hcap : mstructSetCapUnbounded = false)  :
    SafeQ (exec m pc (.Dup )) QC := by
  simp only [exec, bind_eq, pure_eq]; safe_tac

theorem exec_safe_Pop (m : Machine) (pc : Nat) (hpc : pc < usizeMax) (hnl : nextLastTodo = false) (hcap : mstructSetCapUnbounded = false)  :
    SafeQ (exec m pc (.Pop )) QC := by
  simp only [exec, bind_eq, pure_eq]; safe_tac

theorem exec_safe_Block (m : Machine) (pc : Nat) (hpc : pc < usizeMax) (hnl : nextLastTodo = false) (hcap : mstructSetCapUnbounded = false)  :
    SafeQ (exec m pc (.Block )) QC := by
  simp only [exec, bind_eq, pure_eq]; safe_tac

theorem exec_safe_End (m : Machine) (pc : Nat) (hpc : pc < usizeMax) (hnl : nextLastTodo = false) (hcap : mstructSetCapUnbounded = false)  :
    SafeQ (exec m pc (.End )) QC := by
  simp only [exec, bind_eq, pure_eq]; safe_tac

theorem exec_safe_Jump (m : Machine) (pc : Nat) (hpc : pc < usizeMax) (hnl : nextLastTodo = false) (hcap : mstructSetCapUnbounded = false) (a0 : _) :
    SafeQ (exec m pc (.Jump a0)) QC := by
  simp only [exec, bind_eq, pure_eq]; safe_tac

theorem exec_safe_Branch (m : Machine) (pc : Nat) (hpc : pc < usizeMax) (hnl : nextLastTodo = false) (hcap : mstructSetCapUnbounded = false) (a0 : _) :
    SafeQ (exec m pc (.Branch a0)) QC := by
  simp only [exec, bind_eq, pure_eq]; safe_tac

theorem exec_safe_Next (m : Machine) (pc : Nat) (hpc : pc < usizeMax) (hnl : nextLastTodo = false) (hcap : mstructSetCapUnbounded = false)  :
    SafeQ (exec m pc (.Next )) QC := by
  simp only [exec, bind_eq, pure_eq]; safe_tac

theorem exec_safe_Last (m : Machine) (pc : Nat) (hpc : pc < usizeMax) (hnl : nextLastTodo = false) (hcap : mstructSetCapUnbounded = false)  :
    SafeQ (exec m pc (.Last )) QC := by
  simp only [exec, bind_eq, pure_eq]; safe_tac

theorem exec_safe_Call (m : Machine) (pc : Nat) (hpc : pc < usizeMax) (hnl : nextLastTodo = false) (hcap : mstructSetCapUnbounded = false) (a0 : _) :
    SafeQ (exec m pc (.Call a0)) QC := by
  simp only [exec, bind_eq, pure_eq]; safe_tac

theorem exec_safe_Recall (m : Machine) (pc : Nat) (hpc : pc < usizeMax) (hnl : nextLastTodo = false) (hcap : mstructSetCapUnbounded = false) (a0 : _) :
    SafeQ (exec m pc (.Recall a0)) QC := by
  simp only [exec, bind_eq, pure_eq]; safe_tac

theorem exec_safe_ExtCall (m : Machine) (pc : Nat) (hpc : pc < usizeMax) (hnl : nextLastTodo = false) (hcap : mstructSetCapUnbounded = false) (a0 : _) (a1 : _) :
    SafeQ (exec m pc (.ExtCall a0 a1)) QC := by
  simp only [exec, bind_eq, pure_eq]; safe_tac

theorem exec_safe_Return (m : Machine) (pc : Nat) (hpc : pc < usizeMax) (hnl : nextLastTodo = false) (hcap : mstructSetCapUnbounded = false)  :
    SafeQ (exec m pc (.Return )) QC := by
  simp only [exec, bind_eq, pure_eq]; safe_tac

theorem exec_safe_Exit (m : Machine) (pc : Nat) (hpc : pc < usizeMax) (hnl : nextLastTodo = false) (hcap : mstructSetCapUnbounded = false) (a0 : _) :
    SafeQ (exec m pc (.Exit a0)) QC := by
  simp only [exec, bind_eq, pure_eq]; safe_tac

theorem exec_safe_Add (m : Machine) (pc : Nat) (hpc : pc < usizeMax) (hnl : nextLastTodo = false) (hcap : mstructSetCapUnbounded = false)  :
    SafeQ (exec m pc (.Add )) QC := by
  simp only [exec, bind_eq, pure_eq]; safe_tac

theorem exec_safe_Sub (m : Machine) (pc : Nat) (hpc : pc < usizeMax) (hnl : nextLastTodo = false) (hcap : mstructSetCapUnbounded = false)  :
    SafeQ (exec m pc (.Sub )) QC := by
  simp only [exec, bind_eq, pure_eq]; safe_tac

theorem exec_safe_SaturatingAdd (m : Machine) (pc : Nat) (hpc : pc < usizeMax) (hnl : nextLastTodo = false) (hcap : mstructSetCapUnbounded = false)  :
    SafeQ (exec m pc (.SaturatingAdd )) QC := by
  simp only [exec, bind_eq, pure_eq]; safe_tac

theorem exec_safe_SaturatingSub (m : Machine) (pc : Nat) (hpc : pc < usizeMax) (hnl : nextLastTodo = false) (hcap : mstructSetCapUnbounded = false)  :
    SafeQ (exec m pc (.SaturatingSub )) QC := by
  simp only [exec, bind_eq, pure_eq]; safe_tac

theorem exec_safe_Not (m : Machine) (pc : Nat) (hpc : pc < usizeMax) (hnl : nextLastTodo = false) (hcap : mstructSetCapUnbounded = false)  :
    SafeQ (exec m pc (.Not )) QC := by
  simp only [exec, bind_eq, pure_eq]; safe_tac

theorem exec_safe_Gt (m : Machine) (pc : Nat) (hpc : pc < usizeMax) (hnl : nextLastTodo = false) (hcap : mstructSetCapUnbounded = false)  :
    SafeQ (exec m pc (.Gt )) QC := by
  simp only [exec, bind_eq, pure_eq]; safe_tac

theorem exec_safe_Lt (m : Machine) (pc : Nat) (hpc : pc < usizeMax) (hnl : nextLastTodo = false) (hcap : mstructSetCapUnbounded = false)  :
    SafeQ (exec m pc (.Lt )) QC := by
  simp only [exec, bind_eq, pure_eq]; safe_tac

theorem exec_safe_Eq (m : Machine) (pc : Nat) (hpc : pc < usizeMax) (hnl : nextLastTodo = false) (hcap : mstructSetCapUnbounded = false)  :
    SafeQ (exec m pc (.Eq )) QC := by
  simp only [exec, bind_eq, pure_eq]; safe_tac

theorem exec_safe_FactNew (m : Machine) (pc : Nat) (hpc : pc < usizeMax) (hnl : nextLastTodo = false) (hcap : mstructSetCapUnbounded = false) (a0 : _) :
    SafeQ (exec m pc (.FactNew a0)) QC := by
  simp only [exec, bind_eq, pure_eq]; safe_tac

theorem exec_safe_FactKeySet (m : Machine) (pc : Nat) (hpc : pc < usizeMax) (hnl : nextLastTodo = false) (hcap : mstructSetCapUnbounded = false) (a0 : _) :
    SafeQ (exec m pc (.FactKeySet a0)) QC := by
  simp only [exec, bind_eq, pure_eq]; safe_tac

theorem exec_safe_FactValueSet (m : Machine) (pc : Nat) (hpc : pc < usizeMax) (hnl : nextLastTodo = false) (hcap : mstructSetCapUnbounded = false) (a0 : _) :
    SafeQ (exec m pc (.FactValueSet a0)) QC := by
  simp only [exec, bind_eq, pure_eq]; safe_tac

theorem exec_safe_StructNew (m : Machine) (pc : Nat) (hpc : pc < usizeMax) (hnl : nextLastTodo = false) (hcap : mstructSetCapUnbounded = false) (a0 : _) :
    SafeQ (exec m pc (.StructNew a0)) QC := by
  simp only [exec, bind_eq, pure_eq]; safe_tac

theorem exec_safe_StructSet (m : Machine) (pc : Nat) (hpc : pc < usizeMax) (hnl : nextLastTodo = false) (hcap : mstructSetCapUnbounded = false) (a0 : _) :
    SafeQ (exec m pc (.StructSet a0)) QC := by
  simp only [exec, bind_eq, pure_eq]; safe_tac

theorem exec_safe_StructGet (m : Machine) (pc : Nat) (hpc : pc < usizeMax) (hnl : nextLastTodo = false) (hcap : mstructSetCapUnbounded = false) (a0 : _) :
    SafeQ (exec m pc (.StructGet a0)) QC := by
  simp only [exec, bind_eq, pure_eq]; safe_tac

theorem exec_safe_MStructSet (m : Machine) (pc : Nat) (hpc : pc < usizeMax) (hnl : nextLastTodo = false) (hcap : mstructSetCapUnbounded = false) (a0 : _) :
    SafeQ (exec m pc (.MStructSet a0)) QC := by
  simp only [exec, bind_eq, pure_eq]; safe_tac

theorem exec_safe_MStructGet (m : Machine) (pc : Nat) (hpc : pc < usizeMax) (hnl : nextLastTodo = false) (hcap : mstructSetCapUnbounded = false) (a0 : _) :
    SafeQ (exec m pc (.MStructGet a0)) QC := by
  simp only [exec, bind_eq, pure_eq]; safe_tac

theorem exec_safe_Cast (m : Machine) (pc : Nat) (hpc : pc < usizeMax) (hnl : nextLastTodo = false) (hcap : mstructSetCapUnbounded = false) (a0 : _) :
    SafeQ (exec m pc (.Cast a0)) QC := by
  simp only [exec, bind_eq, pure_eq]; safe_tac

theorem exec_safe_Wrap (m : Machine) (pc : Nat) (hpc : pc < usizeMax) (hnl : nextLastTodo = false) (hcap : mstructSetCapUnbounded = false) (a0 : _) :
    SafeQ (exec m pc (.Wrap a0)) QC := by
  simp only [exec, bind_eq, pure_eq]; safe_tac

theorem exec_safe_Is (m : Machine) (pc : Nat) (hpc : pc < usizeMax) (hnl : nextLastTodo = false) (hcap : mstructSetCapUnbounded = false) (a0 : _) :
    SafeQ (exec m pc (.Is a0)) QC := by
  simp only [exec, bind_eq, pure_eq]; safe_tac

theorem exec_safe_Unwrap (m : Machine) (pc : Nat) (hpc : pc < usizeMax) (hnl : nextLastTodo = false) (hcap : mstructSetCapUnbounded = false) (a0 : _) :
    SafeQ (exec m pc (.Unwrap a0)) QC := by
  simp only [exec, bind_eq, pure_eq]; safe_tac

theorem exec_safe_Publish (m : Machine) (pc : Nat) (hpc : pc < usizeMax) (hnl : nextLastTodo = false) (hcap : mstructSetCapUnbounded = false)  :
    SafeQ (exec m pc (.Publish )) QC := by
  simp only [exec, bind_eq, pure_eq]; safe_tac

theorem exec_safe_Create (m : Machine) (pc : Nat) (hpc : pc < usizeMax) (hnl : nextLastTodo = false) (hcap : mstructSetCapUnbounded = false)  :
    SafeQ (exec m pc (.Create )) QC := by
  simp only [exec, bind_eq, pure_eq]; safe_tac

theorem exec_safe_Delete (m : Machine) (pc : Nat) (hpc : pc < usizeMax) (hnl : nextLastTodo = false) (hcap : mstructSetCapUnbounded = false)  :
    SafeQ (exec m pc (.Delete )) QC := by
  simp only [exec, bind_eq, pure_eq]; safe_tac

theorem exec_safe_Update (m : Machine) (pc : Nat) (hpc : pc < usizeMax) (hnl : nextLastTodo = false) (hcap : mstructSetCapUnbounded = false)  :
    SafeQ (exec m pc (.Update )) QC := by
  simp only [exec, bind_eq, pure_eq]; safe_tac

theorem exec_safe_Emit (m : Machine) (pc : Nat) (hpc : pc < usizeMax) (hnl : nextLastTodo = false) (hcap : mstructSetCapUnbounded = false)  :
    SafeQ (exec m pc (.Emit )) QC := by
  simp only [exec, bind_eq, pure_eq]; safe_tac

theorem exec_safe_Query (m : Machine) (pc : Nat) (hpc : pc < usizeMax) (hnl : nextLastTodo = false) (hcap : mstructSetCapUnbounded = false)  :
    SafeQ (exec m pc (.Query )) QC := by
  simp only [exec, bind_eq, pure_eq]; safe_tac

theorem exec_safe_QueryStart (m : Machine) (pc : Nat) (hpc : pc < usizeMax) (hnl : nextLastTodo = false) (hcap : mstructSetCapUnbounded = false)  :
    SafeQ (exec m pc (.QueryStart )) QC := by
  simp only [exec, bind_eq, pure_eq]; safe_tac

theorem exec_safe_QueryNext (m : Machine) (pc : Nat) (hpc : pc < usizeMax) (hnl : nextLastTodo = false) (hcap : mstructSetCapUnbounded = false) (a0 : _) :
    SafeQ (exec m pc (.QueryNext a0)) QC := by
  simp only [exec, bind_eq, pure_eq]; safe_tac

theorem exec_safe_Serialize (m : Machine) (pc : Nat) (hpc : pc < usizeMax) (hnl : nextLastTodo = false) (hcap : mstructSetCapUnbounded = false)  :
    SafeQ (exec m pc (.Serialize )) QC := by
  simp only [exec, bind_eq, pure_eq]; safe_tac

theorem exec_safe_Deserialize (m : Machine) (pc : Nat) (hpc : pc < usizeMax) (hnl : nextLastTodo = false) (hcap : mstructSetCapUnbounded = false)  :
    SafeQ (exec m pc (.Deserialize )) QC := by
  simp only [exec, bind_eq, pure_eq]; safe_tac

theorem exec_safe_Meta (m : Machine) (pc : Nat) (hpc : pc < usizeMax) (hnl : nextLastTodo = false) (hcap : mstructSetCapUnbounded = false) (a0 : _) :
    SafeQ (exec m pc (.Meta a0)) QC := by
  simp only [exec, bind_eq, pure_eq]; safe_tac

theorem exec_safe (m : Machine) (pc : Nat) (hpc : pc < usizeMax) (hnl : nextLastTodo = false) (hcap : mstructSetCapUnbounded = false) (i : Instr) (hf : i.operandsFit) :
    SafeQ (exec m pc i) QC := by
  have hss := stackSize_lt_usizeMax
  cases i with
  | RestoreSP =>
    simp only [exec, bind_eq, pure_eq]
    apply safe_bind
    · exact safe_popCall
    · intro o ho
      split
      · safe_tac
      · next saved =>
        have hs : saved < usizeMax := ho saved rfl
        split
        · next h => exact absurd h (checkedInc_ne_none hs)
        · safe_tac
  | FactCount limit =>
    simp only [exec, bind_eq, pure_eq]
    apply safe_bind
    · safe_tac
    · intro _ _
      split
      · apply safe_bind
        · safe_tac
        · intro rows _
          split
          · next h => exact absurd h (countRows_ne_none _ _ _ hf _ _)
          · safe_tac
      · safe_tac
  | SaveSP =>
    simp only [exec, bind_eq, pure_eq]
    apply safe_bind
    · exact safe_stackLen
    · intro n hn
      apply safe_bind
      · apply safe_pushCall; omega
      · intro _ _; safe_tac
  | Const a0 => exact exec_safe_Const m pc hpc hnl hcap a0
  | Identifier a0 => exact exec_safe_Identifier m pc hpc hnl hcap a0
  | Def a0 => exact exec_safe_Def m pc hpc hnl hcap a0
  | Get a0 => exact exec_safe_Get m pc hpc hnl hcap a0
  | Dup  => exact exec_safe_Dup m pc hpc hnl hcap 
  | Pop  => exact exec_safe_Pop m pc hpc hnl hcap 
  | Block  => exact exec_safe_Block m pc hpc hnl hcap 
  | End  => exact exec_safe_End m pc hpc hnl hcap 
  | Jump a0 => exact exec_safe_Jump m pc hpc hnl hcap a0
  | Branch a0 => exact exec_safe_Branch m pc hpc hnl hcap a0
  | Next  => exact exec_safe_Next m pc hpc hnl hcap 
  | Last  => exact exec_safe_Last m pc hpc hnl hcap 
  | Call a0 => exact exec_safe_Call m pc hpc hnl hcap a0
  | Recall a0 => exact exec_safe_Recall m pc hpc hnl hcap a0
  | ExtCall a0 a1 => exact exec_safe_ExtCall m pc hpc hnl hcap a0 a1
  | Return  => exact exec_safe_Return m pc hpc hnl hcap 
  | Exit a0 => exact exec_safe_Exit m pc hpc hnl hcap a0
  | Add  => exact exec_safe_Add m pc hpc hnl hcap 
  | Sub  => exact exec_safe_Sub m pc hpc hnl hcap 
  | SaturatingAdd  => exact exec_safe_SaturatingAdd m pc hpc hnl hcap 
  | SaturatingSub  => exact exec_safe_SaturatingSub m pc hpc hnl hcap 
  | Not  => exact exec_safe_Not m pc hpc hnl hcap 
  | Gt  => exact exec_safe_Gt m pc hpc hnl hcap 
  | Lt  => exact exec_safe_Lt m pc hpc hnl hcap 
  | Eq  => exact exec_safe_Eq m pc hpc hnl hcap 
  | FactNew a0 => exact exec_safe_FactNew m pc hpc hnl hcap a0
  | FactKeySet a0 => exact exec_safe_FactKeySet m pc hpc hnl hcap a0
  | FactValueSet a0 => exact exec_safe_FactValueSet m pc hpc hnl hcap a0
  | StructNew a0 => exact exec_safe_StructNew m pc hpc hnl hcap a0
  | StructSet a0 => exact exec_safe_StructSet m pc hpc hnl hcap a0
  | StructGet a0 => exact exec_safe_StructGet m pc hpc hnl hcap a0
  | MStructSet a0 => exact exec_safe_MStructSet m pc hpc hnl hcap a0
  | MStructGet a0 => exact exec_safe_MStructGet m pc hpc hnl hcap a0
  | Cast a0 => exact exec_safe_Cast m pc hpc hnl hcap a0
  | Wrap a0 => exact exec_safe_Wrap m pc hpc hnl hcap a0
  | Is a0 => exact exec_safe_Is m pc hpc hnl hcap a0
  | Unwrap a0 => exact exec_safe_Unwrap m pc hpc hnl hcap a0
  | Publish  => exact exec_safe_Publish m pc hpc hnl hcap 
  | Create  => exact exec_safe_Create m pc hpc hnl hcap 
  | Delete  => exact exec_safe_Delete m pc hpc hnl hcap 
  | Update  => exact exec_safe_Update m pc hpc hnl hcap 
  | Emit  => exact exec_safe_Emit m pc hpc hnl hcap 
  | Query  => exact exec_safe_Query m pc hpc hnl hcap 
  | QueryStart  => exact exec_safe_QueryStart m pc hpc hnl hcap 
  | QueryNext a0 => exact exec_safe_QueryNext m pc hpc hnl hcap a0
  | Serialize  => exact exec_safe_Serialize m pc hpc hnl hcap 
  | Deserialize  => exact exec_safe_Deserialize m pc hpc hnl hcap 
  | Meta a0 => exact exec_safe_Meta m pc hpc hnl hcap a0

/-! ### entry wrappers (`setup_*`, `call_*` before `run`) -/

theorem safe_clearCalls : SafeQ clearCalls T := fun _ hs => ⟨⟨hs.stack, by intro x hx; cases hx⟩, trivial⟩
theorem safe_clearScope : SafeQ clearScope T := fun _ hs => ⟨⟨hs.stack, hs.calls⟩, trivial⟩

macro_rules
  | `(tactic| safe_tac) => `(tactic| first | exact safe_clearCalls | exact safe_clearScope)

theorem safe_setupFunction (m : Machine) (name : Nat) (lt : LabelType) : SafeQ (setupFunction m name lt) T := by
  unfold setupFunction; simp only [bind_eq, pure_eq]; safe_tac

theorem safe_pushAll (vs : List Value) : SafeQ (pushAll vs) T := by
  induction vs with
  | nil => unfold pushAll; simp only [pure_eq]; safe_tac
  | cons v r ih =>
    unfold pushAll; simp only [bind_eq]
    apply safe_bind
    · safe_tac
    · intro _ _; exact ih

macro_rules
  | `(tactic| safe_tac) => `(tactic| first | exact safe_setupFunction _ _ _ | exact safe_pushAll _)

theorem safe_setupAction (m : Machine) (name : Nat) (args : List Value) : SafeQ (setupAction m name args) T := by
  unfold setupAction; simp only [bind_eq, pure_eq]; safe_tac

theorem safe_setupCommand (m : Machine) (lt : LabelType) (tn : Nat) (tf : Fields) :
    SafeQ (setupCommand m lt tn tf) T := by
  unfold setupCommand; simp only [bind_eq, pure_eq]; safe_tac

macro_rules
  | `(tactic| safe_tac) => `(tactic| first | exact safe_setupAction _ _ _ | exact safe_setupCommand _ _ _ _)

/-- every entry wrapper, on every machine, with arbitrary names / arguments / `this` data: no panic,
and the state handed to `run` is well-formed -/
theorem enter_safe (m : Machine) (e : Entry) : SafeQ (enter m e) T := by
  cases e <;> (simp only [enter, bind_eq, pure_eq]; safe_tac)

end AranyaV.VM
