import AranyaV.Proofs.CompileSim
import AranyaV.Proofs.LangEnv
/-!
C22: statements of the code-at-pc simulation (per evaluator fuel) and small helper lemmas.
-/
namespace AranyaV.Lang
open AranyaV.Gen.Lang

mutual
/-- constructs covered by the simulation proof so far -/
def supE : Expr → Bool
  | .unit | .int _ | .str _ | .bool _ | .none | .todo | .var _ | .enumRef _ _ _ => true
  | .some e | .ok e | .err e | .not e | .ret e => supE e
  | .is e _ | .dot e _ | .cast e _ => supE e
  | .and a b | .or a b | .coalesce a b => supE a && supE b
  | .eq a b | .ne a b | .gt a b | .lt a b | .ge a b | .le a b => supE a && supE b
  | .ite c t f => supE c && supE t && supE f
  | .call _ args => supArgs args
  | .ffi _ _ _ args => supArgs args
  | .struct _ fields _ => supFields fields
  | .block ss e => supSs ss && supE e
  | .mtch scrut arms => supE scrut && supArmsE arms
  | .substruct e _ => supE e
def supArgs : List Expr → Bool
  | [] => true
  | e :: es => supE e && supArgs es
def supFields : List (Nat × Expr) → Bool
  | [] => true
  | (_, e) :: rest => supE e && supFields rest
def supPat : Pat → Bool
  | .default => true
  | .values vs => supArgs vs
def supArmsE : List (Pat × Expr) → Bool
  | [] => true
  | (p, e) :: rest => supPat p && supE e && supArmsE rest
def supArmsS : List (Pat × List Stmt) → Bool
  | [] => true
  | (p, ss) :: rest => supPat p && supSs ss && supArmsS rest
def supS : Stmt → Bool
  | .let_ _ e => supE e
  | .check c els => supE c && supE els
  | .ifS brs hasElse els => supBrs brs && (!hasElse || supSs els)
  | .ret e => supE e
  | .dassert e => supE e
  | .mtch scrut arms => supE scrut && supArmsS arms
def supSs : List Stmt → Bool
  | [] => true
  | s :: ss => supS s && supSs ss
def supBrs : List (Expr × List Stmt) → Bool
  | [] => true
  | (c, ss) :: rest => supE c && supSs ss && supBrs rest
end

variable (S : Sim)

/-- the VM state in the middle of a function activation -/
abbrev stAt (junk base : List Val) (env : Env) (fr : List Env) (K : List Nat) (pc : Nat) (l : Log) : VM :=
  ⟨junk ++ base, env :: fr, base.length :: K, pc, l⟩

def ExprSim (n : Nat) : Prop :=
  ∀ (e : Expr) (env : Env) (log : Log) (wp c : Nat) (junk base : List Val) (fr : List Env) (K : List Nat),
    supE e = true →
    CodeAt S.labels S.m.prog wp (compileExpr S.m.p.structs wp c e).code →
    DefsOk S.labels (compileExpr S.m.p.structs wp c e).defs →
    Outcome S.m (evalExpr S.m.p n env log e) base fr K
      (fun v l => stAt (v :: junk) base env fr K (wp + (compileExpr S.m.p.structs wp c e).code.length) l)
      (stAt junk base env fr K wp log)

def ArgsSim (n : Nat) : Prop :=
  ∀ (es : List Expr) (env : Env) (log : Log) (wp c : Nat) (junk base : List Val) (fr : List Env) (K : List Nat),
    supArgs es = true →
    CodeAt S.labels S.m.prog wp (compileArgs S.m.p.structs wp c es).code →
    DefsOk S.labels (compileArgs S.m.p.structs wp c es).defs →
    Outcome S.m (evalArgs S.m.p n env log es) base fr K
      (fun vs l => stAt (vs.reverse ++ junk) base env fr K (wp + (compileArgs S.m.p.structs wp c es).code.length) l)
      (stAt junk base env fr K wp log)

/-- struct literal fields: the accumulator struct sits below the field value being computed -/
def FieldsSim (n : Nat) : Prop :=
  ∀ (fields : List (Nat × Expr)) (d : List (Nat × Ty)) (name : Nat) (fs : List (Nat × Val)) (env : Env) (log : Log)
    (wp c : Nat) (junk base : List Val) (fr : List Env) (K : List Nat),
    supFields fields = true → S.m.p.structDef name = some d →
    CodeAt S.labels S.m.prog wp (compileFields S.m.p.structs wp c fields).code →
    DefsOk S.labels (compileFields S.m.p.structs wp c fields).defs →
    Outcome S.m (evalFields S.m.p n env log d fields (.struct name fs)) base fr K
      (fun acc l => stAt (acc :: junk) base env fr K (wp + (compileFields S.m.p.structs wp c fields).code.length) l)
      (stAt (.struct name fs :: junk) base env fr K wp log)

/-- the branching phase of a `match`, as a function of the patterns only -/
def compileTestsP (sd : Defs) (wp c : Nat) : List Pat → Out × List Label
  | [] => (⟨[], [], c⟩, [])
  | .values vs :: rest =>
    let V := compilePatVals sd wp (c + 1) (Label.anon c) vs
    let R := compileTestsP sd (wp + V.code.length) V.c rest
    (⟨V.code ++ R.1.code, V.defs ++ R.1.defs, R.1.c⟩, Label.anon c :: R.2)
  | .default :: rest =>
    let R := compileTestsP sd (wp + 1) (c + 1) rest
    (⟨jmp (Label.anon c) :: R.1.code, R.1.defs, R.1.c⟩, Label.anon c :: R.2)

def supPats : List Pat → Bool
  | [] => true
  | p :: ps => supPat p && supPats ps

/-- the alternatives of one arm: the scrutinee `v` stays on top of the stack; a hit continues at
the arm's address, a miss behind the tests -/
def PatValsSim (n : Nat) : Prop :=
  ∀ (vs : List Expr) (v : Val) (env : Env) (log : Log) (wp c : Nat) (arm : Label) (armAddr : Nat)
    (junk base : List Val) (fr : List Env) (K : List Nat),
    supArgs vs = true →
    CodeAt S.labels S.m.prog wp (compilePatVals S.m.p.structs wp c arm vs).code →
    DefsOk S.labels (compilePatVals S.m.p.structs wp c arm vs).defs →
    lookupLabel S.labels arm = some armAddr →
    Outcome S.m (matchVals S.m.p n env log v vs) base fr K
      (fun b l => stAt (v :: junk) base env fr K
        (if b then armAddr else wp + (compilePatVals S.m.p.structs wp c arm vs).code.length) l)
      (stAt (v :: junk) base env fr K wp log)

/-- arm selection: `addrOf k` is the address of arm number `k` -/
def SelectSim (n : Nat) : Prop :=
  ∀ (pats : List Pat) (v : Val) (env : Env) (log : Log) (wp c k0 : Nat) (addrOf : Nat → Nat)
    (junk base : List Val) (fr : List Env) (K : List Nat),
    supPats pats = true →
    CodeAt S.labels S.m.prog wp (compileTestsP S.m.p.structs wp c pats).1.code →
    DefsOk S.labels (compileTestsP S.m.p.structs wp c pats).1.defs →
    (∀ i l, (compileTestsP S.m.p.structs wp c pats).2[i]? = some l → lookupLabel S.labels l = some (addrOf (k0 + i))) →
    Outcome S.m (selectArm S.m.p n env log v pats k0) base fr K
      (fun k l => stAt (v :: junk) base env fr K (addrOf k) l)
      (stAt (v :: junk) base env fr K wp log)

def StmtsSim (n : Nat) : Prop :=
  ∀ (ss : List Stmt) (env : Env) (log : Log) (wp c : Nat) (junk base : List Val) (fr : List Env) (K : List Nat),
    supSs ss = true →
    CodeAt S.labels S.m.prog wp (compileStmts S.m.p.structs wp c ss).code →
    DefsOk S.labels (compileStmts S.m.p.structs wp c ss).defs →
    Outcome S.m (evalStmts S.m.p n env log ss) base fr K
      (fun env' l => stAt junk base env' fr K (wp + (compileStmts S.m.p.structs wp c ss).code.length) l)
      (stAt junk base env fr K wp log)

def StmtSim (n : Nat) : Prop :=
  ∀ (s : Stmt) (env : Env) (log : Log) (wp c : Nat) (junk base : List Val) (fr : List Env) (K : List Nat),
    supS s = true →
    CodeAt S.labels S.m.prog wp (compileStmt S.m.p.structs wp c s).code →
    DefsOk S.labels (compileStmt S.m.p.structs wp c s).defs →
    Outcome S.m (evalStmt S.m.p n env log s) base fr K
      (fun env' l => stAt junk base env' fr K (wp + (compileStmt S.m.p.structs wp c s).code.length) l)
      (stAt junk base env fr K wp log)

/-- a nested statement block `Block; ss; End` -/
def ScopedSim (n : Nat) : Prop :=
  ∀ (ss : List Stmt) (env : Env) (log : Log) (wp c : Nat) (junk base : List Val) (fr : List Env) (K : List Nat),
    supSs ss = true →
    CodeAt S.labels S.m.prog wp (.Block :: (compileStmts S.m.p.structs (wp + 1) c ss).code ++ [.End]) →
    DefsOk S.labels (compileStmts S.m.p.structs (wp + 1) c ss).defs →
    Outcome S.m (evalScoped S.m.p n env log ss) base fr K
      (fun env' l => stAt junk base env' fr K (wp + (compileStmts S.m.p.structs (wp + 1) c ss).code.length + 2) l)
      (stAt junk base env fr K wp log)

/-- the `if / else if / else` chain: `endAddr` is where the end label of the statement points -/
def BranchesSim (n : Nat) : Prop :=
  ∀ (brs : List (Expr × List Stmt)) (hasElse : Bool) (els : List Stmt) (env : Env) (log : Log) (wp c : Nat)
    (endL : Label) (endAddr : Nat) (junk base : List Val) (fr : List Env) (K : List Nat),
    supBrs brs = true → (hasElse = true → supSs els = true) →
    CodeAt S.labels S.m.prog wp (compileBranches S.m.p.structs wp c endL brs).code →
    DefsOk S.labels (compileBranches S.m.p.structs wp c endL brs).defs →
    lookupLabel S.labels endL = some endAddr →
    (hasElse = true →
      CodeAt S.labels S.m.prog (wp + (compileBranches S.m.p.structs wp c endL brs).code.length)
        (.Block :: (compileStmts S.m.p.structs (wp + (compileBranches S.m.p.structs wp c endL brs).code.length + 1)
            (compileBranches S.m.p.structs wp c endL brs).c els).code ++ [.End]) ∧
      DefsOk S.labels (compileStmts S.m.p.structs (wp + (compileBranches S.m.p.structs wp c endL brs).code.length + 1)
            (compileBranches S.m.p.structs wp c endL brs).c els).defs ∧
      endAddr = wp + (compileBranches S.m.p.structs wp c endL brs).code.length +
        (compileStmts S.m.p.structs (wp + (compileBranches S.m.p.structs wp c endL brs).code.length + 1)
            (compileBranches S.m.p.structs wp c endL brs).c els).code.length + 2) →
    (hasElse = false → endAddr = wp + (compileBranches S.m.p.structs wp c endL brs).code.length) →
    Outcome S.m (evalBranches S.m.p n env log brs hasElse els) base fr K
      (fun env' l => stAt junk base env' fr K endAddr l)
      (stAt junk base env fr K wp log)

/-- what a function body does, seen from the state right after the call (or at the harness's
entry): arguments on the stack, a fresh frame -/
def BodyOutcome (m : Machine) (r : Res Val) (σ : List Val) (frs : List Env) (Kc : List Nat) (s : VM) : Prop :=
  match r with
  | .val v l => ∃ envJ pcR, Steps m s ⟨v :: σ, envJ :: frs, Kc, pcR, l⟩ ∧ m.prog[pcR]? = some .Return
  | .exit r l => ∃ t, ExitsWith m s r t ∧ t.log = l
  | .ffiErr l => ErrorsWith m s .ffi l
  | .ret _ _ => True
  | .stuck => True
  | .oof => True

def BodySim (n : Nat) : Prop :=
  ∀ (f : Nat) (vs : List Val) (log : Log) (σ : List Val) (frs : List Env) (Kc : List Nat) (entry : Nat),
    lookupLabel S.labels (.fn f) = some entry →
    BodyOutcome S.m (evalCall S.m.p n f vs log) σ frs Kc ⟨vs.reverse ++ σ, [[]] :: frs, Kc, entry, log⟩

/-- global hypotheses on the compiled program -/
structure ProgOk : Prop where
  funs : FunsOk S
  sup : ∀ f fd, S.m.p.funDef f = some fd → supSs fd.body = true
  ffi : FfiOk S.m
  /-- field names of a struct definition are distinct (`define_struct` rejects duplicates) -/
  structs : ∀ n d, S.m.p.structDef n = some d → (d.map (·.1)).Nodup

structure AllSim (n : Nat) : Prop where
  e : ExprSim S n
  a : ArgsSim S n
  ss : StmtsSim S n
  s : StmtSim S n
  sc : ScopedSim S n
  br : BranchesSim S n
  body : BodySim S n
  fl : FieldsSim S n
  pv : PatValsSim S n
  sel : SelectSim S n

theorem sim_zero : AllSim S 0 := by
  refine ⟨?_, ?_, ?_, ?_, ?_, ?_, ?_, ?_, ?_, ?_⟩
  · intro e env log wp c junk base fr K _ _ _; simp [evalExpr, Outcome]
  · intro es env log wp c junk base fr K _ _ _; simp [evalArgs, Outcome]
  · intro ss env log wp c junk base fr K _ _ _; simp [evalStmts, Outcome]
  · intro s env log wp c junk base fr K _ _ _; simp [evalStmt, Outcome]
  · intro ss env log wp c junk base fr K _ _ _; simp [evalScoped, Outcome]
  · intro brs hasElse els env log wp c endL endAddr junk base fr K _ _ _ _ _ _ _; simp [evalBranches, Outcome]
  · intro f vs log σ frs Kc entry _; simp [evalCall, BodyOutcome]
  · intro fields d name fs env log wp c junk base fr K _ _ _ _; simp [evalFields, Outcome]
  · intro vs v env log wp c arm armAddr junk base fr K _ _ _ _; simp [matchVals, Outcome]
  · intro pats v env log wp c k0 addrOf junk base fr K _ _ _ _; simp [selectArm, Outcome]

macro "normpc" : tactic => `(tactic| simp only [List.length_append, List.length_cons, List.length_singleton, List.length_nil, ← Nat.add_assoc, Nat.add_zero, Nat.zero_add, Nat.reduceAdd])
macro "normpc" "at" h:ident : tactic => `(tactic| simp only [List.length_append, List.length_cons, List.length_singleton, List.length_nil, ← Nat.add_assoc, Nat.add_zero, Nat.zero_add, Nat.reduceAdd] at $h:ident)


theorem builtin_step {m : Machine} {f : Nat} {i : Instr} {a b : Int} {v : Val} {σ sc K pc lg}
    (hi : (builtinInstr f : Option Instr) = some i) (hop : builtinOp f a b = some v)
    (h : m.prog[pc]? = some i) :
    step m ⟨.int b :: .int a :: σ, sc, K, pc, lg⟩ = .running ⟨v :: σ, sc, K, pc + 1, lg⟩ := by
  match f with
  | 0 => simp [builtinInstr] at hi; subst hi; simp [builtinOp, builtinInstr] at hop; subst hop; exact step_add h
  | 1 => simp [builtinInstr] at hi; subst hi; simp [builtinOp, builtinInstr] at hop; subst hop; exact step_satadd h
  | 2 => simp [builtinInstr] at hi; subst hi; simp [builtinOp, builtinInstr] at hop; subst hop; exact step_sub h
  | 3 => simp [builtinInstr] at hi; subst hi; simp [builtinOp, builtinInstr] at hop; subst hop; exact step_satsub h
  | n + 4 => simp [builtinInstr] at hi

theorem builtin_res {labels} {f : Nat} {i : Instr} (hi : (builtinInstr f : Option Instr) = some i) : res labels i = i := by
  match f with
  | 0 => simp [builtinInstr] at hi; subst hi; rfl
  | 1 => simp [builtinInstr] at hi; subst hi; rfl
  | 2 => simp [builtinInstr] at hi; subst hi; rfl
  | 3 => simp [builtinInstr] at hi; subst hi; rfl
  | n + 4 => simp [builtinInstr] at hi

theorem isBuiltin_iff {f : Nat} : isBuiltin f = true ↔ ∃ i, (builtinInstr f : Option Instr) = some i := by
  match f with
  | 0 => simp [isBuiltin, builtinInstr]
  | 1 => simp [isBuiltin, builtinInstr]
  | 2 => simp [isBuiltin, builtinInstr]
  | 3 => simp [isBuiltin, builtinInstr]
  | n + 4 => simp [isBuiltin, builtinInstr]

theorem intPair_some {vs a b} (h : intPair vs = some (a, b)) : vs = [.int a, .int b] := by
  match vs with
  | [.int x, .int y] => simp [intPair] at h; simp [h]
  | [] => simp [intPair] at h
  | [_] => simp [intPair] at h
  | _ :: _ :: _ :: _ => simp [intPair] at h
  | [.unit, _] | [.bool _, _] | [.str _, _] | [.id _, _] | [.enum _ _, _] | [.ident _, _] | [.none, _] | [.some _, _] | [.ok _, _] | [.err _, _] | [.struct _ _, _] => simp [intPair] at h
  | [.int _, .unit] | [.int _, .bool _] | [.int _, .str _] | [.int _, .id _] | [.int _, .enum _ _] | [.int _, .ident _] | [.int _, .none] | [.int _, .some _] | [.int _, .ok _] | [.int _, .err _] | [.int _, .struct _ _] => simp [intPair] at h

theorem cmpInts_some {f x y v} (h : cmpInts f x y = some v) : ∃ i j, x = .int i ∧ y = .int j ∧ v = .bool (f i j) := by
  cases x <;> cases y <;> simp [cmpInts] at h
  exact ⟨_, _, rfl, rfl, h.symm⟩


end AranyaV.Lang
