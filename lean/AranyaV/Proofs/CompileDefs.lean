import AranyaV.Proofs.CompileSim
/-!
C22: statements of the code-at-pc simulation (per evaluator fuel) and small helper lemmas.
-/
namespace AranyaV.Lang
open AranyaV.Gen.Lang

mutual
/-- constructs covered by the simulation proof so far -/
def supE : Expr → Bool
  | .unit | .int _ | .str _ | .bool _ | .none | .todo | .var _ | .enumRef _ _ _ => true
  | .some e | .ok e | .err e | .not e | .ret e => supE e
  | .is e _ | .dot e _ | .cast e _ => supE e
  | .and a b | .or a b | .coalesce a b => supE a && supE b
  | .eq a b | .ne a b | .gt a b | .lt a b | .ge a b | .le a b => supE a && supE b
  | .ite c t f => supE c && supE t && supE f
  | .call f args => isBuiltin f && supArgs args
  | _ => false
def supArgs : List Expr → Bool
  | [] => true
  | e :: es => supE e && supArgs es
end

variable (S : Sim)

/-- the VM state in the middle of a function activation -/
abbrev stAt (junk base : List Val) (env : Env) (fr : List Env) (K : List Nat) (pc : Nat) (l : Log) : VM :=
  ⟨junk ++ base, env :: fr, base.length :: K, pc, l⟩

def ExprSim (n : Nat) : Prop :=
  ∀ (e : Expr) (env : Env) (log : Log) (wp c : Nat) (junk base : List Val) (fr : List Env) (K : List Nat),
    supE e = true →
    CodeAt S.labels S.m.prog wp (compileExpr S.m.p.structs wp c e).code →
    DefsOk S.labels (compileExpr S.m.p.structs wp c e).defs →
    Outcome S.m (evalExpr S.m.p n env log e) base fr K
      (fun v l => stAt (v :: junk) base env fr K (wp + (compileExpr S.m.p.structs wp c e).code.length) l)
      (stAt junk base env fr K wp log)

def ArgsSim (n : Nat) : Prop :=
  ∀ (es : List Expr) (env : Env) (log : Log) (wp c : Nat) (junk base : List Val) (fr : List Env) (K : List Nat),
    supArgs es = true →
    CodeAt S.labels S.m.prog wp (compileArgs S.m.p.structs wp c es).code →
    DefsOk S.labels (compileArgs S.m.p.structs wp c es).defs →
    Outcome S.m (evalArgs S.m.p n env log es) base fr K
      (fun vs l => stAt (vs.reverse ++ junk) base env fr K (wp + (compileArgs S.m.p.structs wp c es).code.length) l)
      (stAt junk base env fr K wp log)

theorem sim_zero : ExprSim S 0 ∧ ArgsSim S 0 := by
  refine ⟨?_, ?_⟩
  · intro e env log wp c junk base fr K _ _ _; simp [evalExpr, Outcome]
  · intro es env log wp c junk base fr K _ _ _; simp [evalArgs, Outcome]


macro "normpc" : tactic => `(tactic| simp only [List.length_append, List.length_cons, List.length_singleton, List.length_nil, ← Nat.add_assoc, Nat.add_zero, Nat.zero_add, Nat.reduceAdd])
macro "normpc" "at" h:ident : tactic => `(tactic| simp only [List.length_append, List.length_cons, List.length_singleton, List.length_nil, ← Nat.add_assoc, Nat.add_zero, Nat.zero_add, Nat.reduceAdd] at $h:ident)


theorem builtin_step {m : Machine} {f : Nat} {i : Instr} {a b : Int} {v : Val} {σ sc K pc lg}
    (hi : (builtinInstr f : Option Instr) = some i) (hop : builtinOp f a b = some v)
    (h : m.prog[pc]? = some i) :
    step m ⟨.int b :: .int a :: σ, sc, K, pc, lg⟩ = .running ⟨v :: σ, sc, K, pc + 1, lg⟩ := by
  match f with
  | 0 => simp [builtinInstr] at hi; subst hi; simp [builtinOp, builtinInstr] at hop; subst hop; exact step_add h
  | 1 => simp [builtinInstr] at hi; subst hi; simp [builtinOp, builtinInstr] at hop; subst hop; exact step_satadd h
  | 2 => simp [builtinInstr] at hi; subst hi; simp [builtinOp, builtinInstr] at hop; subst hop; exact step_sub h
  | 3 => simp [builtinInstr] at hi; subst hi; simp [builtinOp, builtinInstr] at hop; subst hop; exact step_satsub h
  | n + 4 => simp [builtinInstr] at hi

theorem builtin_res {labels} {f : Nat} {i : Instr} (hi : (builtinInstr f : Option Instr) = some i) : res labels i = i := by
  match f with
  | 0 => simp [builtinInstr] at hi; subst hi; rfl
  | 1 => simp [builtinInstr] at hi; subst hi; rfl
  | 2 => simp [builtinInstr] at hi; subst hi; rfl
  | 3 => simp [builtinInstr] at hi; subst hi; rfl
  | n + 4 => simp [builtinInstr] at hi

theorem isBuiltin_iff {f : Nat} : isBuiltin f = true ↔ ∃ i, (builtinInstr f : Option Instr) = some i := by
  match f with
  | 0 => simp [isBuiltin, builtinInstr]
  | 1 => simp [isBuiltin, builtinInstr]
  | 2 => simp [isBuiltin, builtinInstr]
  | 3 => simp [isBuiltin, builtinInstr]
  | n + 4 => simp [isBuiltin, builtinInstr]

theorem intPair_some {vs a b} (h : intPair vs = some (a, b)) : vs = [.int a, .int b] := by
  match vs with
  | [.int x, .int y] => simp [intPair] at h; simp [h]
  | [] => simp [intPair] at h
  | [_] => simp [intPair] at h
  | _ :: _ :: _ :: _ => simp [intPair] at h
  | [.unit, _] | [.bool _, _] | [.str _, _] | [.id _, _] | [.enum _ _, _] | [.ident _, _] | [.none, _] | [.some _, _] | [.ok _, _] | [.err _, _] | [.struct _ _, _] => simp [intPair] at h
  | [.int _, .unit] | [.int _, .bool _] | [.int _, .str _] | [.int _, .id _] | [.int _, .enum _ _] | [.int _, .ident _] | [.int _, .none] | [.int _, .some _] | [.int _, .ok _] | [.int _, .err _] | [.int _, .struct _ _] => simp [intPair] at h

theorem cmpInts_some {f x y v} (h : cmpInts f x y = some v) : ∃ i j, x = .int i ∧ y = .int j ∧ v = .bool (f i j) := by
  cases x <;> cases y <;> simp [cmpInts] at h
  exact ⟨_, _, rfl, rfl, h.symm⟩


end AranyaV.Lang
