import AranyaV.Proofs.DiskIO
/-!
Annotated op streams (C15, I/O errors anywhere): real I/O calls plus ghost steps, the
conformance predicate `Conf`, and `gq_conf`: a conforming stream preserves `GQ`.
-/
namespace AranyaV.Disk
open AranyaV.Wire

inductive AOp
  /-- `pwrite` into the data region -/
  | data (off : Nat) (b : Bytes)
  /-- `pwrite` of (a leading part of) the prefix / body of the attempted root `a` -/
  | rootw (a : Root) (off : Nat) (b : Bytes)
  /-- a barrier that returned (`true`: `fsync`) -/
  | sync (fs : Bool)
  /-- `fallocate`, or the marker of a failed call: no effect on any byte -/
  | noop (o : Op)
  /-- ghost: an item is completely written, the write frontier moves past it -/
  | advance (rec : Rec)
  /-- the final barrier of a commit returned: the attempt becomes the committed root -/
  | syncCommit (a : Root)

def AOp.erase : AOp → List Op
  | .data off b => [.write off b]
  | .rootw _ off b => [.write off b]
  | .sync true => [.fsync]
  | .sync false => [.fdatasync]
  | .noop o => [o]
  | .advance _ => []
  | .syncCommit _ => [.fdatasync]

def gnext (L : Layout) (g : G) : AOp → G
  | .data _ _ => g
  | .rootw a _ _ => { g with pa := some a, gen := a.gen }
  | .sync _ => { g with atts := g.pa.toList ++ g.atts, pa := none, D := g.free }
  | .noop _ => g
  | .advance rec => { g with free := rec.end_, recs := g.recs ++ [rec] }
  | .syncCommit a => { g with done := some a, next := L.other g.next, atts := [], pa := none, D := g.free }

def AOk (L : Layout) (ck : Checksum) (g : G) (d : Disk) : AOp → Prop
  | .data off _ => g.free ≤ off ∧ L.freeStart ≤ off
  | .rootw a off b => SubRoot g.next a ⟨off, b⟩ ∧
      (g.pa = some a ∨ (g.pa = none ∧ TornOKp ck d.durable g.next a ∧ a.gen = g.gen + 1 ∧
        a.free = (g.free : Int) ∧ g.D = g.free))
  | .sync _ => True
  | .noop o => o = .failed ∨ ∃ a b, o = .falloc a b
  | .advance rec => rec.off = g.free ∧ agreeRec d.view rec
  | .syncCommit a => g.pa = some a ∧
      d.pending = [⟨g.next, be32Enc (encBody a).length⟩, ⟨g.next + 4, encBody a⟩] ∧
      a.Bounded ∧ a.valid ck = true

def eraseAll (al : List AOp) : List Op := al.flatMap AOp.erase

def gfin (L : Layout) (g : G) (al : List AOp) : G := al.foldl (gnext L) g

def Conf (L : Layout) (ck : Checksum) : G → Disk → List AOp → Prop
  | _, _, [] => True
  | g, d, a :: as => AOk L ck g d a ∧ Conf L ck (gnext L g a) (d.execAll a.erase) as

variable {L : Layout} {ck : Checksum}

theorem gq_step (hL : L.OK) {d : Disk} {g : G} (q : GQ L ck d g) (a : AOp) (h : AOk L ck g d a) :
    GQ L ck (d.execAll a.erase) (gnext L g a) := by
  have hfs := next_lt hL q.next_slot
  cases a with
  | data off b =>
    obtain ⟨h1, h2⟩ := h
    show GQ L ck (d.pwrite ⟨off, b⟩) g
    refine { q with pend := ?_, recs_ok := ?_ }
    · intro p hp
      simp only [pending_pwrite, List.mem_append, List.mem_singleton] at hp
      rcases hp with hp | rfl
      · exact q.pend p hp
      · have := q.D_le; exact Or.inl ⟨h2, by simp only; omega⟩
    · intro rec hr
      obtain ⟨x, y, z, e⟩ := q.recs_ok rec hr
      refine ⟨x, y, ?_, e⟩
      rw [view_pwrite]
      refine agreeRec_congr (fun i _ hi => applyFull_not_covers ?_) z
      unfold covers; simp only; omega
  | rootw a off b =>
    obtain ⟨hs, hpa⟩ := h
    show GQ L ck (d.pwrite ⟨off, b⟩) { g with pa := some a, gen := a.gen }
    have hge : g.gen ≤ a.gen := by
      rcases hpa with h | ⟨_, _, h, _⟩
      · rw [q.pa_gen a h]; exact Nat.le_refl _
      · omega
    have hnew : (∀ r, g.done = some r → r.gen < a.gen) ∧ (L.freeStart : Int) ≤ a.free ∧ a.free ≤ (g.D : Int) := by
      rcases hpa with h | ⟨_, _, hg, hf, hD⟩
      · have := q.newer_ok a (Or.inr h); exact ⟨this.1, this.2.2.1, this.2.2.2⟩
      · refine ⟨fun r hr => by have := (q.done_ok r hr).1; omega, ?_, ?_⟩
        · rw [hf]; have := q.fs; omega
        · rw [hf, hD]; exact Int.le_refl _
    refine ⟨q.next_slot, q.lenA, q.lenB, q.cur, q.nxt, ?_, ?_, ?_, ?_, ?_, q.D_le, q.fs, ?_⟩
    · intro r hr
      rcases hr with hr | hr
      · have := q.newer_ok r (Or.inl hr)
        exact ⟨this.1, by simp only; omega, this.2.2⟩
      · simp only [Option.some.injEq] at hr; subst hr
        exact ⟨hnew.1, Nat.le_refl _, hnew.2⟩
    · intro r hr
      have := q.done_ok r hr
      exact ⟨by simp only; omega, this.2⟩
    · intro r hr; simp only [Option.some.injEq] at hr; subst hr; rfl
    · intro p hp
      simp only [pending_pwrite, List.mem_append, List.mem_singleton] at hp
      rcases hp with hp | rfl
      · rcases q.pend p hp with h | ⟨a0, ha0, hs0⟩
        · exact Or.inl h
        · rcases hpa with h | ⟨h, _⟩
          · rw [h] at ha0; cases ha0; exact Or.inr ⟨a, rfl, hs0⟩
          · rw [h] at ha0; cases ha0
      · exact Or.inr ⟨a, rfl, hs⟩
    · intro r hr
      simp only [Option.some.injEq] at hr; subst hr
      rcases hpa with h | ⟨_, h, _⟩
      · exact q.torn _ h
      · exact h
    · intro rec hr
      obtain ⟨x, y, z, e⟩ := q.recs_ok rec hr
      refine ⟨x, y, ?_, e⟩
      rw [view_pwrite]
      refine agreeRec_congr (fun i hi _ => applyFull_not_covers (fun hc => ?_)) z
      have := (subRoot_covers hs hc).2.1
      omega
  | sync fs =>
    have hex : d.execAll (AOp.erase (.sync fs)) = d.sync := by cases fs <;> rfl
    rw [hex]
    show GQ L ck d.sync { g with atts := g.pa.toList ++ g.atts, pa := none, D := g.free }
    have hm := mixed_view d
    obtain ⟨hcur, hlA, hlB, hnx⟩ := q.mixed_slots hL hm
    have hmem : ∀ r, g.newer r ↔ r ∈ g.pa.toList ++ g.atts := by
      intro r; unfold G.newer
      cases g.pa with
      | none => simp
      | some a => simp [eq_comm, or_comm]
    refine ⟨q.next_slot, hlA, hlB, hcur, ?_, ?_, ?_, ?_, ?_, ?_, Nat.le_refl _, q.fs, ?_⟩
    · intro r' hr'
      rcases hnx r' hr' with h | h
      · exact Or.inl h
      · exact Or.inr ((hmem r').mp h)
    · intro r hr
      have hr' : g.newer r := by
        rcases hr with hr | hr
        · exact (hmem r).mpr hr
        · cases hr
      have hno := q.newer_ok r hr'; have := q.D_le
      exact ⟨hno.1, hno.2.1, hno.2.2.1, by simp only; omega⟩
    · intro r hr
      have hdo := q.done_ok r hr; have := q.D_le
      exact ⟨hdo.1, hdo.2.1, by simp only; omega⟩
    · intro r hr; cases hr
    · intro p hp; simp at hp
    · intro r hr; cases hr
    · intro rec hr
      obtain ⟨x, y, z, _⟩ := q.recs_ok rec hr
      exact ⟨x, y, by rw [view_sync]; exact z, fun _ => by rw [durable_sync]; exact z⟩
  | noop o =>
    have hex : d.execAll (AOp.erase (.noop o)) = d := by
      rcases h with rfl | ⟨x, y, rfl⟩ <;> rfl
    rw [hex]; exact q
  | advance rec =>
    obtain ⟨hoff, hag⟩ := h
    show GQ L ck d { g with free := rec.end_, recs := g.recs ++ [rec] }
    have hend : g.free ≤ rec.end_ := by unfold Rec.end_; omega
    refine { q with D_le := ?_, fs := ?_, recs_ok := ?_ }
    · have := q.D_le; simp only; omega
    · have := q.fs; simp only; omega
    · intro r hr
      simp only [List.mem_append, List.mem_singleton] at hr
      rcases hr with hr | rfl
      · obtain ⟨x, y, z, e⟩ := q.recs_ok r hr
        exact ⟨x, by simp only; omega, z, e⟩
      · refine ⟨by have := q.fs; omega, Nat.le_refl _, hag, fun hD => ?_⟩
        have := q.D_le
        simp only [Rec.end_] at hD
        omega
  | syncCommit a =>
    obtain ⟨hpa, hpend, hb, hv⟩ := h
    show GQ L ck d.sync { g with done := some a, next := L.other g.next, atts := [], pa := none, D := g.free }
    have hna := q.newer_ok a (Or.inr hpa)
    have hlen := encBody_length_le a
    have hview : d.view = applyFull (applyFull d.durable ⟨g.next, be32Enc (encBody a).length⟩)
        ⟨g.next + 4, encBody a⟩ := by
      simp [Disk.view, hpend, applyAll]
    have hout : ∀ i, (i < g.next ∨ g.next + rootMax ≤ i) → d.view i = d.durable i := by
      intro i hi
      rw [hview, applyFull_not_covers, applyFull_not_covers]
      · unfold covers; simp only [be32Enc_length]; unfold rootMax at hi; omega
      · unfold covers; simp only; unfold rootMax bodyMax at *; omega
    have hos := Layout.other_slot hL q.next_slot
    have holen : lenOK d.durable (L.other g.next) := by
      rcases hos with h | h <;> rw [h]
      · exact q.lenA
      · exact q.lenB
    have hother := slot_congr ck (img' := d.view) holen
      (fun i hi => (hout _ (other_disjoint hL q.next_slot hi)).symm)
    have hpre : agree d.view g.next (be32Enc (encBody a).length) := by
      rw [hview]
      refine agree_congr (fun i hi => applyFull_not_covers ?_) (agree_applyFull _ _ _)
      rw [be32Enc_length] at hi
      unfold covers; simp only; omega
    have hbody : agree d.view (g.next + 4) (encBody a) := by rw [hview]; exact agree_applyFull _ _ _
    have hload : loadValid ck d.view g.next = some a := by
      unfold loadValid
      rw [loadRoot_of_agree hb hpre hbody]
      simp [hv]
    have hlenNext : lenOK d.view g.next := by
      unfold lenOK
      rw [lenAt_be32 (by unfold bodyMax at hlen; omega) hpre]
      unfold rootMax bodyMax at *; omega
    have hlenS : ∀ s, s = L.rootA ∨ s = L.rootB → lenOK d.view s := by
      intro s hs
      by_cases hsn : s = g.next
      · subst hsn; exact hlenNext
      · have : s = L.other g.next := by
          rcases hs with rfl | rfl <;> rcases q.next_slot with h | h
          · exact absurd h.symm hsn
          · rw [h, Layout.other_B hL]
          · rw [h, L.other_A]
          · exact absurd h.symm hsn
        subst this; exact hother.2
    refine ⟨hos, hlenS _ (Or.inl rfl), hlenS _ (Or.inr rfl), ?_, ?_, ?_, ?_, ?_, ?_, ?_, Nat.le_refl _, q.fs, ?_⟩
    · show loadValid ck d.view (L.other (L.other g.next)) = some a
      rw [Layout.other_other hL q.next_slot]; exact hload
    · intro r' hr'
      have hr'' : loadValid ck d.view (L.other g.next) = some r' := hr'
      rw [← hother.1, q.cur] at hr''
      exact Or.inl ⟨a, rfl, hna.1 r' hr''⟩
    · intro r hr; rcases hr with hr | hr <;> cases hr
    · intro r hr
      simp only [Option.some.injEq] at hr; subst hr
      have := q.D_le
      exact ⟨hna.2.1, hna.2.2.1, by simp only; omega⟩
    · intro r hr; cases hr
    · intro p hp; simp at hp
    · intro r hr; cases hr
    · intro rec hr
      obtain ⟨x, y, z, _⟩ := q.recs_ok rec hr
      exact ⟨x, y, by rw [view_sync]; exact z, fun _ => by rw [durable_sync]; exact z⟩

theorem eraseAll_append (x y : List AOp) : eraseAll (x ++ y) = eraseAll x ++ eraseAll y := by
  simp [eraseAll]

theorem gfin_append (L : Layout) (g : G) (x y : List AOp) : gfin L g (x ++ y) = gfin L (gfin L g x) y := by
  simp [gfin]

theorem gq_conf (hL : L.OK) : ∀ (al : List AOp) (d : Disk) (g : G), GQ L ck d g → Conf L ck g d al →
    GQ L ck (d.execAll (eraseAll al)) (gfin L g al) := by
  intro al
  induction al with
  | nil => intro d g q _; exact q
  | cons a as ih =>
    intro d g q hc
    have := ih _ _ (gq_step hL q a hc.1) hc.2
    simpa [eraseAll, gfin, execAll_append] using this

theorem conf_append : ∀ (x y : List AOp) (g : G) (d : Disk),
    Conf L ck g d (x ++ y) ↔ Conf L ck g d x ∧ Conf L ck (gfin L g x) (d.execAll (eraseAll x)) y := by
  intro x
  induction x with
  | nil => intro y g d; simp [Conf, gfin, eraseAll, Disk.execAll]
  | cons a as ih =>
    intro y g d
    simp only [List.cons_append, Conf, ih, and_assoc]
    simp [gfin, eraseAll, execAll_append]

theorem conf_take : ∀ (al : List AOp) (m : Nat) (g : G) (d : Disk), Conf L ck g d al →
    Conf L ck g d (al.take m) := by
  intro al
  induction al with
  | nil => intro m g d h; simpa using h
  | cons a as ih =>
    intro m g d h
    cases m with
    | zero => trivial
    | succ m => exact ⟨h.1, ih m _ _ h.2⟩

theorem erase_length_le (a : AOp) : a.erase.length ≤ 1 := by
  cases a with
  | sync fs => cases fs <;> simp [AOp.erase]
  | _ => simp [AOp.erase]

/-- every prefix of the real op stream is the erasure of a prefix of the annotated one -/
theorem erase_take : ∀ (al : List AOp) (n : Nat), ∃ m, eraseAll (al.take m) = (eraseAll al).take n := by
  intro al
  induction al with
  | nil => intro n; exact ⟨0, by simp [eraseAll]⟩
  | cons a as ih =>
    intro n
    have hl := erase_length_le a
    cases he : a.erase with
    | nil =>
      obtain ⟨m, hm⟩ := ih n
      exact ⟨m + 1, by simp [eraseAll, he] at hm ⊢; exact hm⟩
    | cons o os =>
      have hos : os = [] := by
        rw [he] at hl; simp at hl; exact hl
      subst hos
      cases n with
      | zero => exact ⟨0, by simp [eraseAll]⟩
      | succ n =>
        obtain ⟨m, hm⟩ := ih n
        exact ⟨m + 1, by simp [eraseAll, he] at hm ⊢; exact hm⟩

end AranyaV.Disk
