import AranyaV.Proofs.BraidGraph
/-!
# Proofs.BraidKey — the strand key order, `minAvail`, `addAvail`

`keyLt` is the lexicographic order on `(Priority.cls, Priority.arg, id)` (strict total order on
commands with distinct ids); `minAvail` returns the minimum of the available set; `addAvail`
appends and fails exactly when a second finalize would enter the available set.
-/
namespace AranyaV.Spec
open AranyaV.Gen

theorem keyLt_iff (a b : Cmd) : keyLt a b = true ↔
    a.prio.cls < b.prio.cls ∨ (a.prio.cls = b.prio.cls ∧
      (a.prio.arg < b.prio.arg ∨ (a.prio.arg = b.prio.arg ∧ a.id < b.id))) := by
  simp [keyLt]

theorem keyLt_irrefl (a : Cmd) : keyLt a a = false := by
  have := keyLt_iff a a
  cases h : keyLt a a with
  | false => rfl
  | true => rw [h] at this; simp at this

theorem keyLt_trans {a b c : Cmd} (h1 : keyLt a b = true) (h2 : keyLt b c = true) : keyLt a c = true := by
  rw [keyLt_iff] at *
  omega

theorem keyLt_total {a b : Cmd} (h : a.id ≠ b.id) : keyLt a b = true ∨ keyLt b a = true := by
  rw [keyLt_iff, keyLt_iff]
  omega

theorem keyLt_asymm {a b : Cmd} (h1 : keyLt a b = true) : keyLt b a = false := by
  cases h : keyLt b a with
  | false => rfl
  | true =>
    have := keyLt_trans h1 h
    rw [keyLt_irrefl] at this; cases this

/-- the minimum of a non-empty available set of known ids -/
theorem minAvail_spec {g : Graph} (h : WF g) : ∀ (A : List Nat), A ≠ [] → (∀ x ∈ A, x ∈ ids g) →
    ∃ c, minAvail g A = some c ∧ c ∈ g ∧ c.id ∈ A ∧
      ∀ d ∈ g, d.id ∈ A → d.id ≠ c.id → keyLt c d = true := by
  intro A
  induction A with
  | nil => intro hne; exact absurd rfl hne
  | cons x xs ih =>
    intro _ hall
    obtain ⟨cx, hfx⟩ := find?_isSome (hall x (by simp))
    obtain ⟨hcx, hcxid⟩ := (find?_eq_some h).mp hfx
    by_cases hxs : xs = []
    · subst hxs
      refine ⟨cx, by simp [minAvail, hfx], hcx, by simp [hcxid], ?_⟩
      intro d _ hdA hne
      simp at hdA
      omega
    · obtain ⟨m, hm, hmg, hmA, hmin⟩ := ih hxs (fun y hy => hall y (by simp [hy]))
      by_cases hk : keyLt cx m = true
      · refine ⟨cx, by simp [minAvail, hfx, hm, hk], hcx, by simp [hcxid], ?_⟩
        intro d hd hdA hne
        simp only [List.mem_cons] at hdA
        rcases hdA with e | hdA
        · omega
        · by_cases e : d.id = m.id
          · rw [h.id_inj hd hmg e]; exact hk
          · exact keyLt_trans hk (hmin d hd hdA e)
      · refine ⟨m, by simp [minAvail, hfx, hm, hk], hmg, by simp [hmA], ?_⟩
        intro d hd hdA hne
        simp only [List.mem_cons] at hdA
        rcases hdA with e | hdA
        · have : d = cx := h.id_inj hd hcx (by omega)
          subst this
          rcases keyLt_total (a := d) (b := m) hne with h1 | h1
          · exact absurd h1 hk
          · exact h1
        · exact hmin d hd hdA hne

/-! ## `addAvail` -/

/-- at most one finalize in the list -/
def OneFin (g : Graph) (A : List Nat) : Prop :=
  ∀ x ∈ A, ∀ y ∈ A, isFinalize g x = true → isFinalize g y = true → x = y

theorem addAvail_ok {g : Graph} : ∀ (xs A A' : List Nat), addAvail g A xs = .ok A' →
    A' = A ++ xs ∧ (OneFin g A → OneFin g A') := by
  intro xs
  induction xs with
  | nil =>
    intro A A' h
    simp only [addAvail, Except.ok.injEq] at h
    subst h
    exact ⟨by simp, id⟩
  | cons x xs ih =>
    intro A A' h
    unfold addAvail at h
    by_cases hc : (isFinalize g x && A.any (isFinalize g)) = true
    · simp [hc] at h
    · simp only [hc] at h
      obtain ⟨e, hone⟩ := ih (A ++ [x]) A' h
      refine ⟨by simp [e], fun h1 => hone ?_⟩
      intro u hu v hv fu fv
      simp only [Bool.and_eq_true, List.any_eq_true, not_and, not_exists] at hc
      simp only [List.mem_append, List.mem_singleton] at hu hv
      rcases hu with hu | rfl <;> rcases hv with hv | rfl
      · exact h1 u hu v hv fu fv
      · exact absurd fu (by simpa using hc fv u hu)
      · exact absurd fv (by simpa using hc fu v hv)
      · rfl

theorem addAvail_err {g : Graph} : ∀ (xs A : List Nat) (e : BraidErr), (A ++ xs).Nodup →
    addAvail g A xs = .error e →
    e = .parallelFinalize ∧ ∃ x ∈ A ++ xs, ∃ y ∈ A ++ xs, x ≠ y ∧ isFinalize g x = true ∧ isFinalize g y = true := by
  intro xs
  induction xs with
  | nil => intro A e _ h; simp [addAvail] at h
  | cons x xs ih =>
    intro A e hnd h
    unfold addAvail at h
    by_cases hc : (isFinalize g x && A.any (isFinalize g)) = true
    · simp only [hc, if_true] at h
      simp only [Bool.and_eq_true, List.any_eq_true] at hc
      obtain ⟨fx, y, hy, fy⟩ := hc
      refine ⟨by cases h; rfl, x, by simp, y, by simp [hy], ?_, fx, fy⟩
      intro exy
      subst exy
      rw [List.nodup_append] at hnd
      exact hnd.2.2 x hy x (by simp) rfl
    · simp only [hc] at h
      have := ih (A ++ [x]) e (by simpa using hnd) h
      simpa using this

theorem eraseDups_of_nodup : ∀ (l : List Nat), l.Nodup → l.eraseDups = l := by
  intro l
  induction l with
  | nil => intro _; rfl
  | cons a as ih =>
    intro hnd
    rw [List.nodup_cons] at hnd
    rw [List.eraseDups_cons]
    have : as.filter (fun b => !b == a) = as := by
      rw [List.filter_eq_self]
      intro b hb
      have : b ≠ a := by intro e; subst e; exact hnd.1 hb
      simp [this]
    rw [this, ih hnd.2]

/-! ## priorities -/

def prioOf (g : Graph) (i : Nat) : Option Priority := (g.find? i).map (·.prio)

theorem isFinalize_iff {g : Graph} (h : WF g) {c : Cmd} (hc : c ∈ g) :
    isFinalize g c.id = true ↔ c.prio = Priority.finalize := by
  have : g.find? c.id = some c := (find?_eq_some h).mpr ⟨hc, rfl⟩
  simp [isFinalize, this]

/-- The only priority class above `finalize` is `init` (from the GENERATED `Priority`: the proof
breaks if the variants are reordered so that something else sorts above `Finalize`). -/
theorem keyLt_finalize {a b : Cmd} (h : keyLt a b = true) (ha : a.prio = Priority.finalize) :
    b.prio = Priority.init ∨ b.prio = Priority.finalize := by
  rw [keyLt_iff, ha] at h
  cases hb : b.prio <;> simp [hb, Priority.cls, Priority.arg] at h ⊢

end AranyaV.Spec
