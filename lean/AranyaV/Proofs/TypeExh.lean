import AranyaV.Proofs.TypeFrag
/-!
C24 `typecheck_sound`, exhaustiveness of a `match` without default arm whose patterns are `true` /
`false` or enum variants: what the compiler's check (`scanPats`: pairwise distinct patterns;
`missingDefault`: at least as many patterns as the scrutinee type has values) implies.
-/
namespace AranyaV.Lang
open AranyaV.Gen.Lang

/-- pairwise different patterns (`ExprKind::matches` never holds between two of them) -/
def Distinct (l : List Expr) : Prop := l.Pairwise (fun a b => patEq b a = false)

theorem scanVals_flat : ∀ (vs : List Expr) (s : Scan) (okL errL someL : Bool) (s' : Scan), vs.all flatLit = true →
    scanVals s okL errL someL vs = some s' → s'.all = s.all ++ vs ∧ (Distinct s.all → Distinct s'.all)
  | [], s, _, _, _, s', _, h => by
    simp only [scanVals, Option.some.injEq] at h; subst h; exact ⟨by simp, id⟩
  | v :: vs, s, okL, errL, someL, s', hf, h => by
    simp only [List.all_cons, Bool.and_eq_true] at hf
    have key : (s.all.any (patEq v ·)) = false ∧
        scanVals { s with all := s.all ++ [v] } okL errL someL vs = some s' := by
      cases v <;> simp [flatLit] at hf
      all_goals (
        simp only [scanVals] at h
        split at h
        · cases h
        · rename_i hany
          exact ⟨by simpa using hany, h⟩)
    obtain ⟨hany, hrec⟩ := key
    obtain ⟨hall, hd⟩ := scanVals_flat vs _ okL errL someL s' hf.2 hrec
    refine ⟨by rw [hall]; simp, fun hds => hd ?_⟩
    simp only [Distinct] at hds ⊢
    rw [List.pairwise_append]
    refine ⟨hds, by simp, ?_⟩
    intro a ha b hb
    simp only [List.mem_singleton] at hb; subst hb
    have := List.any_eq_false.mp hany a ha
    simpa using this

theorem scanPats_flat : ∀ (pats : List Pat) (s s' : Scan), pats.all flatPat = true → scanPats s pats = some s' →
    s'.all = s.all ++ flattenPats pats ∧ (Distinct s.all → Distinct s'.all)
  | [], s, s', _, h => by
    simp only [scanPats, Option.some.injEq] at h; subst h; exact ⟨by simp [flattenPats], id⟩
  | .default :: ps, s, s', hf, _ => by simp [flatPat] at hf
  | .values vs :: ps, s, s', hf, h => by
    simp only [List.all_cons, Bool.and_eq_true, flatPat] at hf
    simp only [scanPats] at h
    split at h
    · cases h
    · split at h
      · rename_i s1 hs1
        obtain ⟨h1, d1⟩ := scanVals_flat vs s false false false s1 hf.1 hs1
        obtain ⟨h2, d2⟩ := scanPats_flat ps s1 s' hf.2 h
        exact ⟨by rw [h2, h1]; simp [flattenPats], fun hd => d2 (d1 hd)⟩
      · cases h

theorem scanVals_all : ∀ (vs : List Expr) (s : Scan) (okL errL someL : Bool) (s' : Scan),
    scanVals s okL errL someL vs = some s' → s'.all = s.all ++ vs ∧ (Distinct s.all → Distinct s'.all)
  | [], s, _, _, _, s', h => by
    simp only [scanVals, Option.some.injEq] at h; subst h; exact ⟨by simp, id⟩
  | v :: vs, s, okL, errL, someL, s', h => by
    have key : (s.all.any (patEq v ·)) = false ∧ ∃ s1 a b c, s1.all = s.all ++ [v] ∧ scanVals s1 a b c vs = some s' := by
      simp only [scanVals] at h
      split at h
      · cases h
      · rename_i hany
        refine ⟨by simpa using hany, ?_⟩
        repeat' (split at h)
        all_goals (try (cases h; done))
        all_goals exact ⟨_, _, _, _, rfl, h⟩
    obtain ⟨hany, s1, a, b, c, hs1, hrec⟩ := key
    obtain ⟨hall, hd⟩ := scanVals_all vs s1 a b c s' hrec
    refine ⟨by rw [hall, hs1]; simp, fun hds => hd ?_⟩
    rw [hs1]
    simp only [Distinct] at hds ⊢
    rw [List.pairwise_append]
    refine ⟨hds, by simp, ?_⟩
    intro x hx y hy
    simp only [List.mem_singleton] at hy; subst hy
    have := List.any_eq_false.mp hany x hx
    simpa using this

theorem scanPats_all : ∀ (pats : List Pat) (s s' : Scan), scanPats s pats = some s' →
    s'.all = s.all ++ flattenPats pats ∧ (Distinct s.all → Distinct s'.all)
  | [], s, s', h => by
    simp only [scanPats, Option.some.injEq] at h; subst h; exact ⟨by simp [flattenPats], id⟩
  | .default :: ps, s, s', h => by
    simp only [scanPats] at h
    simpa [flattenPats] using scanPats_all ps s s' h
  | .values vs :: ps, s, s', h => by
    simp only [scanPats] at h
    split at h
    · cases h
    · split at h
      · rename_i s1 hs1
        obtain ⟨h1, d1⟩ := scanVals_all vs s false false false s1 hs1
        obtain ⟨h2, d2⟩ := scanPats_all ps s1 s' h
        exact ⟨by rw [h2, h1]; simp [flattenPats], fun hd => d2 (d1 hd)⟩
      · cases h

/-! ### typing of the flat patterns -/

/-- source literal `v` of type `T` and what it is lowered to -/
def LitOK (cx : LCtx) (T : Ty) (v v' : Expr) : Prop :=
  (T = .bool ∧ ∃ b, v = .bool b ∧ v' = .bool b) ∨
  (∃ e q var x i, T = .enum e ∧ cx.enums.find? (·.1 == e) = some q ∧ indexOf? q.2 var = some i ∧
    v = .enumRef e var x ∧ v' = .enumRef e var (Int.ofNat i))

def AllLitOK (cx : LCtx) (T : Ty) : List Expr → List Expr → Prop
  | [], [] => True
  | v :: vs, v' :: vs' => LitOK cx T v v' ∧ AllLitOK cx T vs vs'
  | _, _ => False

theorem allLitOK_append {cx : LCtx} {T : Ty} : ∀ {a a' b b' : List Expr}, AllLitOK cx T a a' → AllLitOK cx T b b' →
    AllLitOK cx T (a ++ b) (a' ++ b')
  | [], [], _, _, _, hb => by simpa using hb
  | [], _ :: _, _, _, ha, _ => by simp [AllLitOK] at ha
  | _ :: _, [], _, _, ha, _ => by simp [AllLitOK] at ha
  | _ :: a, _ :: a', _, _, ha, hb => by
    simp only [AllLitOK] at ha
    simp only [List.cons_append, AllLitOK]
    exact ⟨ha.1, allLitOK_append ha.2 hb⟩

theorem allLitOK_mem {cx : LCtx} {T : Ty} : ∀ {a a' : List Expr} {v : Expr}, AllLitOK cx T a a' → v ∈ a →
    ∃ v' ∈ a', LitOK cx T v v'
  | [], _, _, _, h => by cases h
  | _ :: _, [], _, ha, _ => by simp [AllLitOK] at ha
  | x :: a, x' :: a', v, ha, h => by
    simp only [AllLitOK] at ha
    rcases List.mem_cons.mp h with rfl | h'
    · exact ⟨x', List.mem_cons_self .., ha.1⟩
    · obtain ⟨v', hv', hl⟩ := allLitOK_mem ha.2 h'
      exact ⟨v', List.mem_cons_of_mem _ hv', hl⟩

theorem allLitOK_src {cx : LCtx} {T : Ty} : ∀ {a a' : List Expr} {v : Expr}, AllLitOK cx T a a' → v ∈ a →
    ∃ v', LitOK cx T v v' := fun h hm => let ⟨v', _, hl⟩ := allLitOK_mem h hm; ⟨v', hl⟩

theorem lit_low {cx : LCtx} {sc : Scopes} {v v' : Expr} {vt : Ty} (hf : flatLit v = true)
    (h : lowerExpr cx sc v = some (v', vt)) : LitOK cx vt v v' := by
  cases v <;> simp [flatLit] at hf
  · simp only [lowerExpr, Option.some.injEq, Prod.mk.injEq] at h
    obtain ⟨rfl, rfl⟩ := h
    exact Or.inl ⟨rfl, _, rfl, rfl⟩
  · simp only [lowerExpr] at h
    split at h
    · cases h
    · rename_i k vs hfind
      simp only [Option.map_eq_some_iff, Prod.mk.injEq] at h
      obtain ⟨i, hi, rfl, rfl⟩ := h
      exact Or.inr ⟨_, _, _, _, i, rfl, hfind, hi, rfl, rfl⟩

theorem unify_flat {cx : LCtx} {st vt st' : Ty} {v v' : Expr} (hl : LitOK cx vt v v') (hu : unify st vt = some st') :
    st' = vt ∧ (st = vt ∨ st = .never) := by
  rcases hl with ⟨rfl, _⟩ | ⟨e, _, _, _, _, rfl, _⟩
  · cases st <;> simp [unify, Ty.matchesT] at hu <;> simp [hu]
  · cases st <;> simp [unify, Ty.matchesT] at hu
    · obtain ⟨h1, h2⟩ := hu; subst h1; subst h2; simp
    · subst hu; simp

theorem litOK_not_never {cx : LCtx} {T : Ty} {v v' : Expr} (h : LitOK cx T v v') : T ≠ .never := by
  rcases h with ⟨rfl, _⟩ | ⟨_, _, _, _, _, rfl, _⟩ <;> simp

theorem patVals_flat {cx : LCtx} {sc : Scopes} : ∀ (vs : List Expr) (st stF : Ty) (vs' : List Expr) (bs : List (Nat × Ty)),
    vs.all flatLit = true → lowerPatValsE cx sc st vs = some (stF, vs', bs) →
    (vs = [] ∧ vs' = [] ∧ stF = st) ∨ (vs ≠ [] ∧ AllLitOK cx stF vs vs' ∧ (st = stF ∨ st = .never))
  | [], st, stF, vs', bs, _, h => by
    simp only [lowerPatValsE, Option.some.injEq, Prod.mk.injEq] at h
    obtain ⟨rfl, rfl, _⟩ := h; exact Or.inl ⟨rfl, rfl, rfl⟩
  | v :: vs, st, stF, vs', bs, hf, h => by
    simp only [List.all_cons, Bool.and_eq_true] at hf
    have hlit : isLiteral v = true := by cases v <;> simp [flatLit] at hf <;> rfl
    simp only [lowerPatValsE, hlit, if_true] at h
    split at h
    · cases h
    · rename_i v' vt hv
      split at h
      · cases h
      · rename_i st1 hu
        simp only [Option.map_eq_some_iff] at h
        obtain ⟨⟨s1, o1, b1⟩, hr, hq⟩ := h
        simp only [Prod.mk.injEq] at hq
        obtain ⟨rfl, rfl, rfl⟩ := hq
        have hl := lit_low hf.1 hv
        obtain ⟨rfl, hst⟩ := unify_flat hl hu
        refine Or.inr ⟨by simp, ?_⟩
        rcases patVals_flat vs _ _ _ _ hf.2 hr with ⟨rfl, rfl, rfl⟩ | ⟨_, hall, h1 | h1⟩
        · exact ⟨by simp only [AllLitOK]; exact ⟨hl, trivial⟩, hst⟩
        · subst h1; exact ⟨by simp only [AllLitOK]; exact ⟨hl, hall⟩, hst⟩
        · exact absurd h1 (litOK_not_never hl)

theorem patsLow_flat {cx : LCtx} {sc : Scopes} : ∀ {st stF : Ty} {pats pats' : List Pat}, PatsLow cx sc st pats pats' stF →
    pats.all flatPat = true →
    (flattenPats pats = [] ∧ flattenPats pats' = [] ∧ stF = st) ∨
    (flattenPats pats ≠ [] ∧ AllLitOK cx stF (flattenPats pats) (flattenPats pats') ∧ (st = stF ∨ st = .never))
  | _, _, _, _, .nil _, _ => Or.inl ⟨rfl, rfl, rfl⟩
  | st, stF, _, _, .cons (pat := pat) (rest := rest) hpat _ hrest, hf => by
    simp only [List.all_cons, Bool.and_eq_true] at hf
    cases pat with
    | default => simp [flatPat] at hf
    | values vs =>
      simp only [flatPat] at hf
      simp only [lowerPat, Option.map_eq_some_iff] at hpat
      obtain ⟨⟨s1, vs', b1⟩, hpv, hq⟩ := hpat
      simp only [Prod.mk.injEq] at hq
      obtain ⟨rfl, rfl, rfl⟩ := hq
      simp only [flattenPats]
      rcases patVals_flat vs st s1 vs' b1 hf.1 hpv with ⟨rfl, rfl, rfl⟩ | ⟨hne, hall, hst⟩
      · simpa using patsLow_flat hrest hf.2
      · rcases patsLow_flat hrest hf.2 with ⟨h1, h2, rfl⟩ | ⟨_, hall2, h3 | h3⟩
        · exact Or.inr ⟨by simp [hne], by rw [h1, h2]; simpa using hall, hst⟩
        · subst h3; exact Or.inr ⟨by simp [hne], allLitOK_append hall hall2, hst⟩
        · exfalso
          cases vs with
          | nil => exact hne rfl
          | cons v0 _ =>
            cases vs' with
            | nil => simp [AllLitOK] at hall
            | cons v0' _ => simp only [AllLitOK] at hall; exact litOK_not_never hall.1 h3

theorem flatten_mem : ∀ {pats : List Pat} {x : Expr}, x ∈ flattenPats pats → ∃ vs, Pat.values vs ∈ pats ∧ x ∈ vs
  | [], _, h => by cases h
  | .default :: r, x, h => by
    obtain ⟨vs, hm, hx⟩ := flatten_mem (pats := r) h
    exact ⟨vs, List.mem_cons_of_mem _ hm, hx⟩
  | .values vs :: r, x, h => by
    simp only [flattenPats, List.mem_append] at h
    rcases h with h | h
    · exact ⟨vs, List.mem_cons_self .., h⟩
    · obtain ⟨vs2, hm, hx⟩ := flatten_mem (pats := r) h
      exact ⟨vs2, List.mem_cons_of_mem _ hm, hx⟩

/-! ### counting -/

theorem subset_of_nodup_length : ∀ {l m : List Nat}, l.Nodup → (∀ x ∈ l, x ∈ m) → m.length ≤ l.length → ∀ y ∈ m, y ∈ l
  | [], m, _, _, hlen, y, hy => by
    have : m = [] := List.eq_nil_of_length_eq_zero (Nat.le_zero.mp hlen)
    subst this; cases hy
  | a :: l, m, hnd, hsub, hlen, y, hy => by
    have ham : a ∈ m := hsub a (List.mem_cons_self ..)
    have hnd' := List.nodup_cons.mp hnd
    by_cases hya : y = a
    · subst hya; exact List.mem_cons_self ..
    · have : y ∈ l := subset_of_nodup_length (m := m.erase a) hnd'.2
        (fun x hx => (List.mem_erase_of_ne (by rintro rfl; exact hnd'.1 hx)).mpr (hsub x (List.mem_cons_of_mem _ hx)))
        (by rw [List.length_erase_of_mem ham]; simp only [List.length_cons] at hlen; omega)
        y ((List.mem_erase_of_ne hya).mpr hy)
      exact List.mem_cons_of_mem _ this

theorem indexOf_go_spec : ∀ (xs : List Nat) (x k j : Nat), indexOf?.go x xs k = some j → ∃ i, j = k + i ∧ xs[i]? = some x
  | [], _, _, _, h => by simp [indexOf?.go] at h
  | y :: ys, x, k, j, h => by
    simp only [indexOf?.go] at h
    split at h
    · rename_i hyx
      simp only [Option.some.injEq] at h
      exact ⟨0, by omega, by simp [beq_iff_eq.mp hyx]⟩
    · obtain ⟨i, hi, hx⟩ := indexOf_go_spec ys x (k + 1) j h
      exact ⟨i + 1, by omega, by simpa using hx⟩

theorem indexOf_spec {xs : List Nat} {x j : Nat} (h : indexOf? xs x = some j) : xs[j]? = some x := by
  obtain ⟨i, hi, hx⟩ := indexOf_go_spec xs x 0 j h
  have : j = i := by omega
  subst this; exact hx

def varOf : Expr → Nat
  | .enumRef _ v _ => v
  | _ => 0

theorem bool_cover {all : List Expr} (hsh : ∀ x ∈ all, ∃ b, x = Expr.bool b) (hd : Distinct all) (hlen : 2 ≤ all.length) :
    ∀ b, Expr.bool b ∈ all := by
  match all, hsh, hd, hlen with
  | a :: c :: rest, hsh, hd, _ =>
    obtain ⟨b1, rfl⟩ := hsh a (by simp)
    obtain ⟨b2, rfl⟩ := hsh c (by simp)
    simp only [Distinct, List.pairwise_cons] at hd
    have := hd.1 (.bool b2) (by simp)
    simp [patEq] at this
    intro b
    cases b <;> cases b1 <;> cases b2 <;> simp_all
  | [], _, _, h => simp at h
  | [_], _, _, h => simp at h

theorem enum_cover {all : List Expr} {e : Nat} {vars : List Nat}
    (hsh : ∀ x ∈ all, ∃ var y, x = Expr.enumRef e var y ∧ var ∈ vars) (hd : Distinct all)
    (hlen : vars.length ≤ all.length) : ∀ var ∈ vars, ∃ y, Expr.enumRef e var y ∈ all := by
  have hnd : (all.map varOf).Nodup := by
    rw [List.nodup_iff_pairwise_ne, List.pairwise_map]
    refine List.Pairwise.imp_of_mem ?_ hd
    intro a b ha hb hab
    obtain ⟨va, ya, rfl, _⟩ := hsh a ha
    obtain ⟨vb, yb, rfl, _⟩ := hsh b hb
    simp [patEq] at hab
    simp only [varOf]
    exact fun h => hab h.symm
  have hsub : ∀ n ∈ all.map varOf, n ∈ vars := by
    intro n hn
    obtain ⟨x, hx, rfl⟩ := List.mem_map.mp hn
    obtain ⟨va, ya, rfl, hm⟩ := hsh x hx
    exact hm
  intro var hvar
  have := subset_of_nodup_length hnd hsub (by simpa using hlen) var hvar
  obtain ⟨x, hx, hxv⟩ := List.mem_map.mp this
  obtain ⟨va, ya, rfl, _⟩ := hsh x hx
  simp only [varOf] at hxv; subst hxv
  exact ⟨ya, hx⟩

end AranyaV.Lang
