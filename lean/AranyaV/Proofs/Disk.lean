import AranyaV.Model.Disk
import AranyaV.Proofs.Wire
/-!
Helper lemmas for `Model.Disk` (C15): byte-map algebra of writes / barriers / crashes, locality
and round trip of the root codec.
-/
namespace AranyaV.Disk
open AranyaV.Wire

/-! ## byte maps -/

/-- position `i` lies inside the write -/
def covers (w : Write) (i : Nat) : Prop := w.off ≤ i ∧ i - w.off < w.bytes.length

/-- the image holds `bs` at `off` -/
def agree (img : Img) (off : Nat) (bs : Bytes) : Prop := ∀ i, i < bs.length → img (off + i) = bs.getD i 0

theorem applyFull_not_covers {m : Img} {w : Write} {i : Nat} (h : ¬ covers w i) :
    applyFull m w i = m i := by
  unfold applyFull; unfold covers at h; rw [if_neg h]

theorem applyMasked_not_covers {m : Img} {w : Write} {k : List Bool} {i : Nat} (h : ¬ covers w i) :
    applyMasked m w k i = m i := by
  unfold applyMasked; unfold covers at h
  rw [if_neg]; intro hh; exact h ⟨hh.1, hh.2.1⟩

theorem applyMasked_nil (m : Img) (w : Write) : applyMasked m w [] = m := by
  funext i; unfold applyMasked; simp

theorem applyFull_covers {m : Img} {w : Write} {i : Nat} (h : covers w i) :
    applyFull m w i = w.bytes.getD (i - w.off) 0 := by
  unfold applyFull; unfold covers at h; rw [if_pos h]

/-- either the old byte or the new byte -/
theorem applyMasked_cases (m : Img) (w : Write) (k : List Bool) (i : Nat) :
    applyMasked m w k i = m i ∨ (covers w i ∧ applyMasked m w k i = w.bytes.getD (i - w.off) 0) := by
  unfold applyMasked covers
  by_cases h : w.off ≤ i ∧ i - w.off < w.bytes.length ∧ k.getD (i - w.off) false = true
  · right; rw [if_pos h]; exact ⟨⟨h.1, h.2.1⟩, rfl⟩
  · left; rw [if_neg h]

theorem applyAll_untouched {ws : List Write} {i : Nat} :
    ∀ (m : Img), (∀ w ∈ ws, ¬ covers w i) → applyAll m ws i = m i := by
  induction ws with
  | nil => intro m _; rfl
  | cons w ws ih =>
    intro m h
    simp only [applyAll]
    rw [ih _ (fun w' hw' => h w' (List.mem_cons_of_mem _ hw'))]
    exact applyFull_not_covers (h w List.mem_cons_self)

theorem crashGo_untouched {ws : List Write} {i : Nat} :
    ∀ (m : Img) (χ : List (List Bool)), (∀ w ∈ ws, ¬ covers w i) → crashGo m ws χ i = m i := by
  induction ws with
  | nil => intro m χ _; rfl
  | cons w ws ih =>
    intro m χ h
    cases χ with
    | nil => rfl
    | cons k ks =>
      simp only [crashGo]
      rw [ih _ _ (fun w' hw' => h w' (List.mem_cons_of_mem _ hw'))]
      exact applyMasked_not_covers (h w List.mem_cons_self)

theorem applyAll_append (m : Img) (a b : List Write) :
    applyAll m (a ++ b) = applyAll (applyAll m a) b := by
  induction a generalizing m with
  | nil => rfl
  | cons w ws ih => simp only [List.cons_append, applyAll]; exact ih _

theorem agree_congr {img img' : Img} {off : Nat} {bs : Bytes}
    (h : ∀ i, i < bs.length → img' (off + i) = img (off + i)) (ha : agree img off bs) :
    agree img' off bs := fun i hi => (h i hi).trans (ha i hi)

theorem agree_applyFull (m : Img) (off : Nat) (bs : Bytes) : agree (applyFull m ⟨off, bs⟩) off bs := by
  intro i hi
  rw [applyFull_covers]
  · simp
  · exact ⟨Nat.le_add_right _ _, by simpa using hi⟩

/-! ## Disk operations -/

@[simp] theorem view_pwrite (d : Disk) (w : Write) : (d.pwrite w).view = applyFull d.view w := by
  simp [Disk.view, Disk.pwrite, applyAll_append, applyAll]

@[simp] theorem view_sync (d : Disk) : d.sync.view = d.view := by
  simp [Disk.view, Disk.sync, applyAll]

@[simp] theorem durable_sync (d : Disk) : d.sync.durable = d.view := rfl
@[simp] theorem pending_sync (d : Disk) : d.sync.pending = [] := rfl
@[simp] theorem durable_pwrite (d : Disk) (w : Write) : (d.pwrite w).durable = d.durable := rfl
@[simp] theorem pending_pwrite (d : Disk) (w : Write) : (d.pwrite w).pending = d.pending ++ [w] := rfl

theorem execAll_append (d : Disk) (a b : List Op) : d.execAll (a ++ b) = (d.execAll a).execAll b := by
  induction a generalizing d with
  | nil => rfl
  | cons o os ih => simp only [List.cons_append, Disk.execAll]; exact ih _

/-! ## the root codec -/

theorem lenAt_congr {img img' : Img} {s : Nat} (h : ∀ i, i < 4 → img (s + i) = img' (s + i)) :
    lenAt img s = lenAt img' s := by
  unfold lenAt
  have h0 := h 0 (by omega); have h1 := h 1 (by omega)
  have h2 := h 2 (by omega); have h3 := h 3 (by omega)
  simp only [Nat.add_zero] at h0
  rw [h0, h1, h2, h3]

theorem readBytes_congr {img img' : Img} {off len : Nat}
    (h : ∀ i, i < len → img (off + i) = img' (off + i)) : readBytes img off len = readBytes img' off len := by
  unfold readBytes
  apply List.map_congr_left
  intro i hi
  exact h i (List.mem_range.mp hi)

/-- locality of `load`: it reads the 4-byte prefix and that many following bytes -/
theorem loadRoot_congr {img img' : Img} {s : Nat}
    (h : ∀ i, i < 4 + lenAt img s → img (s + i) = img' (s + i)) : loadRoot img s = loadRoot img' s := by
  have hl : lenAt img s = lenAt img' s := lenAt_congr (fun i hi => h i (by omega))
  unfold loadRoot
  rw [← hl]
  congr 1
  apply readBytes_congr
  intro i hi
  have := h (4 + i) (by omega)
  simpa [Nat.add_assoc] using this

theorem loadValid_congr (ck : Checksum) {img img' : Img} {s : Nat}
    (h : ∀ i, i < 4 + lenAt img s → img (s + i) = img' (s + i)) :
    loadValid ck img s = loadValid ck img' s := by
  unfold loadValid; rw [loadRoot_congr h]

theorem readBytes_agree {img : Img} {off : Nat} {bs : Bytes} (h : agree img off bs) :
    readBytes img off bs.length = bs := by
  unfold readBytes
  apply List.ext_getElem
  · simp
  · intro i h1 h2
    simp only [List.getElem_map, List.getElem_range]
    rw [h i h2]
    simp [List.getD_eq_getElem?_getD, h2]

theorem lenAt_be32 {img : Img} {s n : Nat} (hn : n < 4294967296) (h : agree img s (be32Enc n)) :
    lenAt img s = n := by
  have h0 := h 0 (by simp [be32Enc]); have h1 := h 1 (by simp [be32Enc])
  have h2 := h 2 (by simp [be32Enc]); have h3 := h 3 (by simp [be32Enc])
  simp only [be32Enc, Nat.add_zero, List.getD_eq_getElem?_getD, List.getElem?_cons_zero,
    List.getElem?_cons_succ, Option.getD_some] at h0 h1 h2 h3
  unfold lenAt
  rw [h0, h1, h2, h3]
  rw [toNat_ofNat_lt (Nat.mod_lt _ (by decide)), toNat_ofNat_lt (Nat.mod_lt _ (by decide)),
    toNat_ofNat_lt (Nat.mod_lt _ (by decide)), toNat_ofNat_lt (Nat.mod_lt _ (by decide))]
  omega

theorem be32Enc_length (n : Nat) : (be32Enc n).length = 4 := rfl

/-- the machine-type bounds of a control record (`u64` / `i64` fields) -/
structure Root.Bounded (r : Root) : Prop where
  gen : r.gen < 2 ^ 64
  heads : ∀ v, r.heads = some v → v < 2 ^ 64
  fact : ∀ v, r.fact = some v → v < 2 ^ 64
  free : inI64 r.free
  sum : r.sum < 2 ^ 64

theorem optDec_enc (o : Option Nat) (h : ∀ v, o = some v → v < 2 ^ 64) (rest : Bytes) :
    optDec (optEnc o ++ rest) = .ok (o, rest) := by
  cases o with
  | none => simp [optEnc, optDec]
  | some v =>
    simp only [optEnc, List.cons_append, optDec]
    rw [if_neg (by decide)]
    simp only [if_true]
    rw [varint64_rt v (h v rfl)]

theorem decBody_enc (r : Root) (hb : r.Bounded) (rest : Bytes) : decBody (encBody r ++ rest) = some r := by
  unfold decBody encBody
  simp only [List.append_assoc]
  rw [varint64_rt _ hb.gen]
  simp only
  rw [optDec_enc _ hb.heads]
  simp only
  rw [optDec_enc _ hb.fact]
  simp only
  rw [i64_rt hb.free]
  simp only
  rw [varint64_rt _ hb.sum]

theorem varintEncLoop_length_le : ∀ (k n : Nat), (varintEncLoop k n).length ≤ k := by
  intro k
  induction k with
  | zero => intro n; simp [varintEncLoop]
  | succ k ih =>
    intro n
    unfold varintEncLoop
    split
    · simp
    · simp only [List.length_cons]; have := ih (n / 128); omega

theorem varintEnc64_length_le (n : Nat) : (varintEnc 64 n).length ≤ 10 :=
  varintEncLoop_length_le 10 n

theorem optEnc_length_le (o : Option Nat) : (optEnc o).length ≤ 11 := by
  cases o with
  | none => simp [optEnc]
  | some v => simp only [optEnc, List.length_cons]; have := varintEnc64_length_le v; omega

/-- the longest serialised `Root`: 10 + 11 + 11 + 10 + 10 bytes -/
def bodyMax : Nat := 52
/-- a root record with its length prefix -/
def rootMax : Nat := 56

theorem encBody_length_le (r : Root) : (encBody r).length ≤ bodyMax := by
  unfold encBody bodyMax
  simp only [List.length_append]
  have h1 := varintEnc64_length_le r.gen
  have h2 := optEnc_length_le r.heads
  have h3 := optEnc_length_le r.fact
  have h4 : (i64Enc r.free).length ≤ 10 := varintEnc64_length_le _
  have h5 := varintEnc64_length_le r.sum
  omega

/-- an image that holds a bounded record (prefix + body) at `s` loads it back -/
theorem loadRoot_of_agree {img : Img} {s : Nat} {r : Root} (hb : r.Bounded)
    (h1 : agree img s (be32Enc (encBody r).length)) (h2 : agree img (s + 4) (encBody r)) :
    loadRoot img s = some r := by
  unfold loadRoot
  have hl : (encBody r).length < 4294967296 := by have := encBody_length_le r; unfold bodyMax at this; omega
  rw [lenAt_be32 hl h1, readBytes_agree h2]
  have := decBody_enc r hb []
  simpa using this

theorem decBody_nil : decBody [] = none := by
  simp [decBody, varintDec, varintDecLoop, varintMax]

/-- a slot that was never written does not load -/
theorem loadRoot_zero {img : Img} {s : Nat} (h : ∀ i, i < 4 → img (s + i) = 0) : loadRoot img s = none := by
  have h0 := h 0 (by omega); have h1 := h 1 (by omega)
  have h2 := h 2 (by omega); have h3 := h 3 (by omega)
  simp only [Nat.add_zero] at h0
  unfold loadRoot lenAt
  rw [h0, h1, h2, h3]
  simp [readBytes, decBody_nil]

end AranyaV.Disk
