import AranyaV.Proofs.CompileDefs
/-!
C22: simulation cases with control flow (`&&`, `||`, `or`, `if`) and builtin calls.
-/
namespace AranyaV.Lang
open AranyaV.Gen.Lang
variable (S : Sim)

/-- one expression case of `ExprSim` -/
def ExprCase (n : Nat) (e : Expr) : Prop :=
  ∀ (env : Env) (log : Log) (wp c : Nat) (junk base : List Val) (fr : List Env) (K : List Nat),
    supE e = true →
    CodeAt S.labels S.m.prog wp (compileExpr S.m.p.structs wp c e).code →
    DefsOk S.labels (compileExpr S.m.p.structs wp c e).defs →
    Outcome S.m (evalExpr S.m.p n env log e) base fr K
      (fun v l => stAt (v :: junk) base env fr K (wp + (compileExpr S.m.p.structs wp c e).code.length) l)
      (stAt junk base env fr K wp log)

theorem sim_and {n : Nat} (ihE : ExprSim S n) (a b : Expr) : ExprCase S (n + 1) (.and a b) := by
  intro env log wp c junk base fr K hsup hcode hdefs
  simp only [supE, Bool.and_eq_true] at hsup
  simp only [compileExpr, defsOk_append, defsOk_cons, DefsOk.nil, and_true] at hdefs
  obtain ⟨⟨⟨hdA, hmid⟩, hdB⟩, hend⟩ := hdefs
  simp only [compileExpr, codeAt_append, codeAt_cons, CodeAt.nil, and_true] at hcode
  simp only [res_br hmid, res_jmp hend] at hcode
  simp only [res] at hcode
  normpc at hcode
  obtain ⟨⟨hcA, hbr, hcf, hj⟩, hcB⟩ := hcode
  have iha := ihE a env log wp c junk base fr K hsup.1 hcA hdA
  simp only [evalExpr, compileExpr]
  cases hra : evalExpr S.m.p n env log a with
  | val x l =>
    rw [hra] at iha; simp only [Outcome] at iha
    cases x <;> simp only [Outcome] <;> try trivial
    rename_i bv
    cases bv with
    | false =>
      simp only [Outcome]
      refine iha.trans ?_
      refine (Steps.one (step_branch_false hbr)).trans ?_
      refine (Steps.one (step_const hcf)).trans ?_
      normpc
      exact Steps.one (step_jump hj)
    | true =>
      have ihb := ihE b env l _ _ junk base fr K hsup.2 hcB hdB
      dsimp only
      cases hrb : evalExpr S.m.p n env l b with
      | val y l' =>
        rw [hrb] at ihb; simp only [Outcome] at ihb
        cases y <;> simp only [Outcome] <;> try trivial
        refine iha.trans ((Steps.one (step_branch_true hbr)).trans ?_)
        normpc
        exact ihb
      | _ => first | (rw [hrb] at ihb; exact Outcome.of_steps (iha.trans (Steps.one (step_branch_true hbr))) ihb) | trivial
  | _ => first | (rw [hra] at iha; exact iha) | trivial

theorem sim_or {n : Nat} (ihE : ExprSim S n) (a b : Expr) : ExprCase S (n + 1) (.or a b) := by
  intro env log wp c junk base fr K hsup hcode hdefs
  simp only [supE, Bool.and_eq_true] at hsup
  simp only [compileExpr, defsOk_append, defsOk_cons, DefsOk.nil, and_true] at hdefs
  obtain ⟨⟨hdA, hdB⟩, hmid, hend⟩ := hdefs
  simp only [compileExpr, codeAt_append, codeAt_cons, CodeAt.nil, and_true] at hcode
  simp only [res_br hmid, res_jmp hend] at hcode
  simp only [res] at hcode
  normpc at hcode
  obtain ⟨⟨⟨hcA, hbr⟩, hcB⟩, hj, hct⟩ := hcode
  have iha := ihE a env log wp c junk base fr K hsup.1 hcA hdA
  simp only [evalExpr, compileExpr]
  cases hra : evalExpr S.m.p n env log a with
  | val x l =>
    rw [hra] at iha; simp only [Outcome] at iha
    cases x <;> simp only [Outcome] <;> try trivial
    rename_i bv
    cases bv with
    | true =>
      simp only [Outcome]
      refine iha.trans ((Steps.one (step_branch_true hbr)).trans ?_)
      normpc
      exact Steps.one (step_const hct)
    | false =>
      have ihb := ihE b env l _ _ junk base fr K hsup.2 hcB hdB
      dsimp only
      cases hrb : evalExpr S.m.p n env l b with
      | val y l' =>
        rw [hrb] at ihb; simp only [Outcome] at ihb
        cases y <;> simp only [Outcome] <;> try trivial
        refine iha.trans ((Steps.one (step_branch_false hbr)).trans (ihb.trans ?_))
        normpc
        exact Steps.one (step_jump hj)
      | _ => first | (rw [hrb] at ihb; exact Outcome.of_steps (iha.trans (Steps.one (step_branch_false hbr))) ihb) | trivial
  | _ => first | (rw [hra] at iha; exact iha) | trivial

theorem sim_coalesce {n : Nat} (ihE : ExprSim S n) (a b : Expr) : ExprCase S (n + 1) (.coalesce a b) := by
  intro env log wp c junk base fr K hsup hcode hdefs
  simp only [supE, Bool.and_eq_true] at hsup
  simp only [compileExpr, defsOk_append, defsOk_cons, DefsOk.nil, and_true] at hdefs
  obtain ⟨⟨hdA, hdB⟩, hsome, hend⟩ := hdefs
  simp only [compileExpr, codeAt_append, codeAt_cons, CodeAt.nil, and_true] at hcode
  simp only [res_br hsome, res_jmp hend] at hcode
  simp only [res] at hcode
  normpc at hcode
  obtain ⟨⟨⟨hcA, hdup, his, hbr, hpop⟩, hcB⟩, hj, hun⟩ := hcode
  have iha := ihE a env log wp (c + 2) junk base fr K hsup.1 hcA hdA
  simp only [evalExpr, compileExpr]
  cases hra : evalExpr S.m.p n env log a with
  | val x l =>
    rw [hra] at iha; simp only [Outcome] at iha
    cases x <;> simp only [Outcome] <;> try trivial
    · -- none: discard, evaluate the fallback
      have ihb := ihE b env l _ _ junk base fr K hsup.2 hcB hdB
      have pre := iha.trans ((Steps.one (step_dup hdup)).trans ((Steps.one (step_is his)).trans
        ((Steps.one (step_branch_false hbr)).trans (Steps.one (step_pop hpop)))))
      cases hrb : evalExpr S.m.p n env l b with
      | val y l' =>
        rw [hrb] at ihb; simp only [Outcome] at ihb ⊢
        refine pre.trans (ihb.trans ?_)
        normpc
        exact Steps.one (step_jump hj)
      | _ => first | (rw [hrb] at ihb; exact Outcome.of_steps pre ihb) | trivial
    · -- some v: unwrap
      rename_i v
      refine iha.trans ((Steps.one (step_dup hdup)).trans ((Steps.one (step_is his)).trans
        ((Steps.one (step_branch_true hbr)).trans ?_)))
      normpc
      exact Steps.one (step_unwrap hun rfl)
  | _ => first | (rw [hra] at iha; exact iha) | trivial

theorem sim_ite {n : Nat} (ihE : ExprSim S n) (cnd t f : Expr) : ExprCase S (n + 1) (.ite cnd t f) := by
  intro env log wp c junk base fr K hsup hcode hdefs
  simp only [supE, Bool.and_eq_true] at hsup
  simp only [compileExpr, defsOk_append, defsOk_cons, DefsOk.nil, and_true] at hdefs
  obtain ⟨⟨⟨⟨hdC, hdF⟩, hels⟩, hdT⟩, hend⟩ := hdefs
  simp only [compileExpr, codeAt_append, codeAt_cons, CodeAt.nil, and_true] at hcode
  simp only [res_br hels, res_jmp hend] at hcode
  normpc at hcode
  obtain ⟨⟨⟨⟨hcC, hbr⟩, hcF⟩, hj⟩, hcT⟩ := hcode
  have ihc := ihE cnd env log wp (c + 2) junk base fr K hsup.1.1 hcC hdC
  simp only [evalExpr, compileExpr]
  cases hrc : evalExpr S.m.p n env log cnd with
  | val x l =>
    rw [hrc] at ihc; simp only [Outcome] at ihc
    cases x <;> simp only [Outcome] <;> try trivial
    rename_i bv
    cases bv with
    | true =>
      have iht := ihE t env l _ _ junk base fr K hsup.1.2 hcT hdT
      have pre := ihc.trans (Steps.one (step_branch_true hbr))
      dsimp only
      cases hrt : evalExpr S.m.p n env l t with
      | val y l' =>
        rw [hrt] at iht; simp only [Outcome] at iht ⊢
        refine pre.trans ?_
        normpc
        exact iht
      | _ => first | (rw [hrt] at iht; exact Outcome.of_steps pre iht) | trivial
    | false =>
      have ihf := ihE f env l _ _ junk base fr K hsup.2 hcF hdF
      have pre := ihc.trans (Steps.one (step_branch_false hbr))
      dsimp only
      cases hrf : evalExpr S.m.p n env l f with
      | val y l' =>
        rw [hrf] at ihf; simp only [Outcome] at ihf ⊢
        refine pre.trans (ihf.trans ?_)
        normpc
        exact Steps.one (step_jump hj)
      | _ => first | (rw [hrf] at ihf; exact Outcome.of_steps pre ihf) | trivial
  | _ => first | (rw [hrc] at ihc; exact ihc) | trivial

theorem sim_builtin {n : Nat} (ihA : ArgsSim S n) (f : Nat) (args : List Expr) (hb : isBuiltin f = true) :
    ExprCase S (n + 1) (.call f args) := by
  intro env log wp c junk base fr K hsup hcode hdefs
  simp only [supE] at hsup
  obtain ⟨i, hi⟩ := isBuiltin_iff.mp hb
  simp only [compileExpr, hi] at hdefs hcode
  simp only [codeAt_append, codeAt_single, builtin_res hi] at hcode
  have iha := ihA args env log wp c junk base fr K hsup hcode.1 hdefs
  simp only [evalExpr, compileExpr, hi, hb, if_true]
  cases hra : evalArgs S.m.p n env log args with
  | val vs l =>
    rw [hra] at iha; simp only [Outcome] at iha
    dsimp only
    cases hp : intPair vs with
    | none => trivial
    | some ab =>
      obtain ⟨a, b⟩ := ab
      have := intPair_some hp
      subst this
      dsimp only
      cases hop : builtinOp f a b with
      | none => trivial
      | some v =>
        simp only [Outcome]
        refine iha.trans ?_
        normpc
        exact Steps.one (builtin_step hi hop hcode.2)
  | _ => first | (rw [hra] at iha; exact iha) | trivial

theorem argsSim_succ {n : Nat} (ihE : ExprSim S n) (ihA : ArgsSim S n) : ArgsSim S (n + 1) := by
  intro es env log wp c junk base fr K hsup hcode hdefs
  cases es with
  | nil =>
    simp only [evalArgs, Outcome, compileArgs, List.length_nil, Nat.add_zero, List.reverse_nil, List.nil_append]
    exact Steps.refl _
  | cons e es =>
    simp only [supArgs, Bool.and_eq_true] at hsup
    simp only [compileArgs, codeAt_append, defsOk_append] at hcode hdefs
    have ihe := ihE e env log wp c junk base fr K hsup.1 hcode.1 hdefs.1
    simp only [evalArgs, compileArgs]
    cases hre : evalExpr S.m.p n env log e with
    | val v l =>
      rw [hre] at ihe; simp only [Outcome] at ihe
      have ihr := ihA es env l _ _ (v :: junk) base fr K hsup.2 hcode.2 hdefs.2
      dsimp only
      cases hrr : evalArgs S.m.p n env l es with
      | val vs l' =>
        rw [hrr] at ihr; simp only [Outcome] at ihr ⊢
        refine ihe.trans ?_
        normpc
        simpa [List.reverse_cons, List.append_assoc] using ihr
      | _ => first | (rw [hrr] at ihr; exact Outcome.of_steps ihe ihr) | trivial
    | _ => first | (rw [hre] at ihe; exact ihe) | trivial

end AranyaV.Lang
