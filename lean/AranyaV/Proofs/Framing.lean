import AranyaV.Model.Framing
/-!
Helper lemmas for the tuple-hash framing: digits are injective and short, length-prefixed digit
strings are prefix-free, `encode_string` is prefix-free, the concatenation of encoded strings is
injective in the item list, `right_encode` is suffix-free.

Every byte string carries the hypothesis `s.length < 2^64` (`Short`): Rust slices are indexed by
a 64-bit `usize`, and the length byte `n` of `left_encode` is only unambiguous while the digit
count fits a byte (sha3-utils asserts `USIZE_BYTES <= 255`).
-/
namespace AranyaV.Framing

/-- a byte string a Rust slice can hold (64-bit `usize`) -/
def Short (s : Bytes) : Prop := s.length < 2 ^ 64

def AllShort (l : List Bytes) : Prop := ∀ s ∈ l, Short s

theorem allShort_nil : AllShort [] := fun _ h => by cases h

theorem allShort_cons {s : Bytes} {l : List Bytes} : AllShort (s :: l) ↔ Short s ∧ AllShort l := by
  constructor
  · intro h; exact ⟨h s (by simp), fun t ht => h t (by simp [ht])⟩
  · intro ⟨h1, h2⟩ t ht
    rcases List.mem_cons.mp ht with rfl | h
    · exact h1
    · exact h2 t h

theorem allShort_append {a b : List Bytes} : AllShort (a ++ b) ↔ AllShort a ∧ AllShort b := by
  constructor
  · intro h; exact ⟨fun t ht => h t (by simp [ht]), fun t ht => h t (by simp [ht])⟩
  · intro ⟨h1, h2⟩ t ht
    rcases List.mem_append.mp ht with h | h
    · exact h1 t h
    · exact h2 t h

/-! ## digits -/

/-- value of little-endian digits -/
def ofLe : Bytes → Nat
  | [] => 0
  | d :: ds => d.toNat + 256 * ofLe ds

theorem ofLe_leDigits (n : Nat) : ofLe (leDigits n) = n := by
  induction n using Nat.strongRecOn with
  | _ n ih =>
    rw [leDigits]
    by_cases h : n < 256
    · simp only [h, if_true, ofLe, UInt8.toNat_ofNat']
      omega
    · simp only [h, if_false, ofLe, UInt8.toNat_ofNat']
      rw [ih (n / 256) (by omega)]
      omega

theorem leDigits_inj {a b : Nat} (h : leDigits a = leDigits b) : a = b := by
  have := congrArg ofLe h
  simpa [ofLe_leDigits] using this

theorem leDigits_ne_nil (n : Nat) : leDigits n ≠ [] := by
  rw [leDigits]; split <;> simp

theorem leDigits_length_pos (n : Nat) : 0 < (leDigits n).length :=
  List.length_pos_iff.mpr (leDigits_ne_nil n)

theorem leDigits_length_le : ∀ (k n : Nat), n < 256 ^ (k + 1) → (leDigits n).length ≤ k + 1
  | 0, n, h => by
    rw [leDigits]
    have : n < 256 := by simpa using h
    simp [this]
  | k + 1, n, h => by
    rw [leDigits]
    by_cases h1 : n < 256
    · simp [h1]
    · simp only [h1, if_false, List.length_cons]
      have : n / 256 < 256 ^ (k + 1) := by
        rw [Nat.div_lt_iff_lt_mul (by decide)]
        rw [Nat.pow_succ] at h
        exact h
      have := leDigits_length_le k (n / 256) this
      omega

theorem beDigits_length (n : Nat) : (beDigits n).length = (leDigits n).length := by
  simp [beDigits]

theorem beDigits_inj {a b : Nat} (h : beDigits a = beDigits b) : a = b :=
  leDigits_inj (List.reverse_inj.mp h)

/-- digit count of `8·len` for a Rust-sized length fits the one length byte -/
theorem digits_lt_256 {n : Nat} (h : n < 2 ^ 64) : (leDigits (8 * n)).length < 256 := by
  have : 8 * n < 256 ^ (8 + 1) := by
    have : (256 : Nat) ^ (8 + 1) = 2 ^ 72 := by decide
    rw [this]
    have : (2 : Nat) ^ 72 = 2 ^ 64 * 256 := by decide
    omega
  have := leDigits_length_le 8 (8 * n) this
  omega

theorem ofNat_inj_of_lt {a b : Nat} (ha : a < 256) (hb : b < 256)
    (h : UInt8.ofNat a = UInt8.ofNat b) : a = b := by
  have := congrArg UInt8.toNat h
  simp only [UInt8.toNat_ofNat'] at this
  omega

/-- a string of digits preceded by its one-byte length is prefix-free -/
theorem lenPrefixed_prefix_free {d d' r r' : Bytes} (hd : d.length < 256) (hd' : d'.length < 256)
    (h : UInt8.ofNat d.length :: (d ++ r) = UInt8.ofNat d'.length :: (d' ++ r')) :
    d = d' ∧ r = r' := by
  have h1 := List.cons.inj h
  have hl : d.length = d'.length := ofNat_inj_of_lt hd hd' h1.1
  exact List.append_inj h1.2 hl

/-! ## `encode_string` is prefix-free -/

theorem encodeString_eq (s : Bytes) :
    encodeString s = UInt8.ofNat (beDigits (8 * s.length)).length :: (beDigits (8 * s.length) ++ s) := by
  simp [encodeString, leftEncode]

theorem encodeString_ne_nil (s : Bytes) : encodeString s ≠ [] := by
  simp [encodeString_eq]

/-- No encoded string is a proper prefix of another, and the split point is unique: if two
encodings followed by arbitrary remainders are equal, the strings and the remainders are equal.
This is what makes boundary shifts between adjacent fields impossible. -/
theorem encodeString_prefix_free {s t r r' : Bytes} (hs : Short s) (ht : Short t)
    (h : encodeString s ++ r = encodeString t ++ r') : s = t ∧ r = r' := by
  rw [encodeString_eq, encodeString_eq] at h
  simp only [List.cons_append, List.append_assoc] at h
  have hd : (beDigits (8 * s.length)).length < 256 := by
    rw [beDigits_length]; exact digits_lt_256 hs
  have hd' : (beDigits (8 * t.length)).length < 256 := by
    rw [beDigits_length]; exact digits_lt_256 ht
  obtain ⟨h1, h2⟩ := lenPrefixed_prefix_free hd hd' h
  have hl : s.length = t.length := by
    have := beDigits_inj h1
    omega
  exact List.append_inj h2 hl

theorem encodeString_inj {s t : Bytes} (hs : Short s) (ht : Short t)
    (h : encodeString s = encodeString t) : s = t :=
  (encodeString_prefix_free (r := []) (r' := []) hs ht (by simpa using h)).1

/-- the concatenation of the encoded items determines the item list -/
theorem concatEncoded_inj : ∀ {xs ys : List Bytes}, AllShort xs → AllShort ys →
    concatEncoded xs = concatEncoded ys → xs = ys
  | [], [], _, _, _ => rfl
  | [], y :: ys, _, _, h => by
    simp only [concatEncoded, List.map_nil, List.flatten_nil, List.map_cons, List.flatten_cons] at h
    have : encodeString y = [] := (List.append_eq_nil_iff.mp h.symm).1
    exact absurd this (encodeString_ne_nil y)
  | x :: xs, [], _, _, h => by
    simp only [concatEncoded, List.map_nil, List.flatten_nil, List.map_cons, List.flatten_cons] at h
    have : encodeString x = [] := (List.append_eq_nil_iff.mp h).1
    exact absurd this (encodeString_ne_nil x)
  | x :: xs, y :: ys, hx, hy, h => by
    simp only [concatEncoded, List.map_cons, List.flatten_cons] at h
    obtain ⟨hx1, hx2⟩ := allShort_cons.mp hx
    obtain ⟨hy1, hy2⟩ := allShort_cons.mp hy
    obtain ⟨h1, h2⟩ := encodeString_prefix_free hx1 hy1 h
    have := concatEncoded_inj hx2 hy2 (by simpa [concatEncoded] using h2)
    rw [h1, this]

/-! ## `right_encode` is suffix-free -/

theorem rightEncode_reverse (x : Nat) :
    (rightEncode x).reverse = UInt8.ofNat (leDigits x).length :: leDigits x := by
  simp [rightEncode, beDigits]

theorem rightEncode_suffix_free {a b : Bytes} {x y : Nat}
    (hx : (leDigits x).length < 256) (hy : (leDigits y).length < 256)
    (h : a ++ rightEncode x = b ++ rightEncode y) : a = b ∧ x = y := by
  have h' := congrArg List.reverse h
  simp only [List.reverse_append, rightEncode_reverse, List.cons_append] at h'
  obtain ⟨h1, h2⟩ := lenPrefixed_prefix_free hx hy h'
  exact ⟨List.reverse_inj.mp h2, leDigits_inj h1⟩

/-! ## the whole preimage -/

/-- The tuple-hash preimage determines the item list and the digest size. -/
theorem tupleHashPreimage_inj {xs ys : List Bytes} {L L' : Nat}
    (hx : AllShort xs) (hy : AllShort ys) (hL : L < 2 ^ 64) (hL' : L' < 2 ^ 64)
    (h : tupleHashPreimage xs L = tupleHashPreimage ys L') : xs = ys ∧ L = L' := by
  unfold tupleHashPreimage at h
  obtain ⟨h1, h2⟩ := rightEncode_suffix_free (digits_lt_256 hL) (digits_lt_256 hL') h
  exact ⟨concatEncoded_inj hx hy h1, by omega⟩

theorem suiteItems_inj {tag tag' : Bytes} {oids oids' ctx ctx' : List Bytes}
    (hlen : ctx.length = ctx'.length)
    (h : suiteTupleItems tag oids ctx = suiteTupleItems tag' oids' ctx') :
    tag = tag' ∧ oids = oids' ∧ ctx = ctx' := by
  simp only [suiteTupleItems, List.cons.injEq] at h
  have := List.append_inj' h.2 hlen
  exact ⟨h.1, this.1, this.2⟩

theorem suiteItems_short {tag : Bytes} {oids ctx : List Bytes}
    (ht : Short tag) (ho : AllShort oids) (hc : AllShort ctx) :
    AllShort (suiteTupleItems tag oids ctx) :=
  allShort_cons.mpr ⟨ht, allShort_append.mpr ⟨ho, hc⟩⟩

/-- `CipherSuiteExt::tuple_hash(tag, ctx)` preimages with contexts of the same arity determine
the tag, the suite OIDs, every context item and the digest size. -/
theorem suiteTuplePreimage_inj {tag tag' : Bytes} {oids oids' ctx ctx' : List Bytes} {L L' : Nat}
    (ht : Short tag) (ht' : Short tag') (ho : AllShort oids) (ho' : AllShort oids')
    (hc : AllShort ctx) (hc' : AllShort ctx') (hL : L < 2 ^ 64) (hL' : L' < 2 ^ 64)
    (hlen : ctx.length = ctx'.length)
    (h : suiteTuplePreimage tag oids ctx L = suiteTuplePreimage tag' oids' ctx' L') :
    tag = tag' ∧ oids = oids' ∧ ctx = ctx' ∧ L = L' := by
  unfold suiteTuplePreimage at h
  obtain ⟨hi, hl⟩ := tupleHashPreimage_inj (suiteItems_short ht ho hc) (suiteItems_short ht' ho' hc') hL hL' h
  obtain ⟨h1, h2, h3⟩ := suiteItems_inj hlen hi
  exact ⟨h1, h2, h3, hl⟩

theorem map_eq_on {α β : Type} {f g : α → β} {l : List α} (h : l.map f = l.map g) :
    ∀ x ∈ l, f x = g x := by
  induction l with
  | nil => intro x hx; cases hx
  | cons a l ih =>
    simp only [List.map_cons, List.cons.injEq] at h
    intro x hx
    rcases List.mem_cons.mp hx with rfl | hx
    · exact h.1
    · exact ih h.2 x hx

theorem short_of_length_le {s : Bytes} {n : Nat} (h : s.length ≤ n) (hn : n < 2 ^ 64) : Short s := by
  unfold Short; omega

end AranyaV.Framing
