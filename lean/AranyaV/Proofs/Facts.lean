import AranyaV.Model.Facts
/-!
Helper lemmas for the fact-storage model: the key order, sorted association lists, prefix
ranges, and the semantic ("slot") reading of chains and perspectives.
-/
namespace AranyaV.Facts

/-! ### the key order (core `List.lt` on `List (List Nat)`) -/

theorem Key.lt_irrefl (a : Key) : ¬ a < a := List.lt_irrefl a
theorem Key.lt_trans {a b c : Key} : a < b → b < c → a < c := List.lt_trans
theorem Key.lt_asymm {a b : Key} : a < b → ¬ b < a := List.lt_asymm
theorem Key.ne_of_lt {a b : Key} (h : a < b) : a ≠ b := fun e => Key.lt_irrefl b (e ▸ h)
theorem Key.lt_of_not_lt_of_ne {a b : Key} (h1 : ¬ a < b) (h2 : a ≠ b) : b < a :=
  Std.lt_of_le_of_ne (List.not_lt.mp h1) (Ne.symm h2)
theorem Key.lt_of_le_of_lt {a b c : Key} : a ≤ b → b < c → a < c := List.lt_of_le_of_lt
theorem Key.le_of_prefix {p k : Key} (h : p <+: k) : p ≤ k := List.IsPrefix.le h
theorem Key.not_lt_of_prefix {p k : Key} (h : p <+: k) : ¬ k < p :=
  List.not_lt.mpr (Key.le_of_prefix h)

/-- Keys that start with a given component-prefix form a contiguous run of the key order:
anything between the prefix itself and a key that starts with the prefix also starts with it.
This is what makes `range(prefix..).take_while(starts_with(prefix))` complete. -/
theorem prefix_between : ∀ {p a b : Key}, p ≤ a → a ≤ b → p <+: b → p <+: a
  | [], _, _, _, _, _ => List.nil_prefix
  | x :: ps, a, b, hpa, hab, hb => by
    obtain ⟨t, rfl⟩ := hb
    cases a with
    | nil =>
      exact absurd hpa (List.not_le.mpr (by exact List.nil_lt_cons x ps))
    | cons y as =>
      simp only [List.cons_append] at hab
      rw [List.cons_le_cons_iff] at hpa hab
      have hxy : x = y := by
        rcases hpa with h | ⟨h, _⟩
        · rcases hab with h' | ⟨h', _⟩
          · exact absurd (List.lt_trans h h') (List.lt_irrefl x)
          · exact absurd (h' ▸ h) (List.lt_irrefl x)
        · exact h
      subst hxy
      have h1 : ps ≤ as := by
        rcases hpa with h | ⟨_, h⟩
        · exact absurd h (List.lt_irrefl x)
        · exact h
      have h2 : as ≤ ps ++ t := by
        rcases hab with h | ⟨_, h⟩
        · exact absurd h (List.lt_irrefl x)
        · exact h
      have := prefix_between h1 h2 (List.prefix_append ps t)
      exact (List.prefix_cons_inj x).mpr this

/-! ### association lists -/

/-- strictly ascending keys: the `BTreeMap` representation invariant -/
def Sorted (m : FMap) : Prop := m.Pairwise (fun a b => a.1 < b.1)

theorem Sorted.nil : Sorted [] := List.Pairwise.nil

theorem sorted_cons {e : Key × Slot} {m : FMap} :
    Sorted (e :: m) ↔ (∀ x ∈ m, e.1 < x.1) ∧ Sorted m := List.pairwise_cons

theorem get_cons (e : Key × Slot) (m : FMap) (k : Key) :
    FMap.get (e :: m) k = if k = e.1 then some e.2 else FMap.get m k := by
  cases e; rfl

theorem get_none_of_forall_ne {m : FMap} {k : Key} (h : ∀ x ∈ m, x.1 ≠ k) : m.get k = none := by
  induction m with
  | nil => rfl
  | cons e r ih =>
    rw [get_cons, if_neg (fun e' => h e (List.mem_cons_self) e'.symm)]
    exact ih (fun x hx => h x (List.mem_cons_of_mem _ hx))

theorem get_none_of_lt_all {m : FMap} {k : Key} (h : ∀ x ∈ m, k < x.1) : m.get k = none :=
  get_none_of_forall_ne (fun x hx => (Key.ne_of_lt (h x hx)).symm)

theorem mem_of_get {m : FMap} {k : Key} {s : Slot} (h : m.get k = some s) : (k, s) ∈ m := by
  induction m with
  | nil => cases h
  | cons e r ih =>
    rw [get_cons] at h
    by_cases hk : k = e.1
    · rw [if_pos hk] at h
      cases h
      subst hk
      exact List.mem_cons_self
    · rw [if_neg hk] at h
      exact List.mem_cons_of_mem _ (ih h)

theorem get_of_mem {m : FMap} (hs : Sorted m) {k : Key} {s : Slot} (h : (k, s) ∈ m) :
    m.get k = some s := by
  induction m with
  | nil => cases h
  | cons e r ih =>
    obtain ⟨h1, h2⟩ := sorted_cons.mp hs
    rw [get_cons]
    rcases List.mem_cons.mp h with rfl | hr
    · simp
    · rw [if_neg (Key.ne_of_lt (h1 _ hr)).symm]
      exact ih h2 hr

theorem get_insert (m : FMap) (k : Key) (s : Slot) (k' : Key) :
    (m.insert k s).get k' = if k' = k then some s else m.get k' := by
  induction m with
  | nil => simp [FMap.insert, FMap.get]
  | cons e r ih =>
    obtain ⟨ke, se⟩ := e
    unfold FMap.insert
    by_cases h1 : k < ke
    · rw [if_pos h1, get_cons]
    · rw [if_neg h1]
      by_cases h2 : k = ke
      · subst h2
        rw [if_pos rfl, get_cons, get_cons]
        by_cases h3 : k' = k <;> simp [h3]
      · rw [if_neg h2, get_cons, get_cons, ih]
        by_cases h3 : k' = ke
        · subst h3
          simp [Ne.symm h2]
        · simp [h3]

theorem mem_insert {m : FMap} {k : Key} {s : Slot} {x : Key × Slot} (h : x ∈ m.insert k s) :
    x = (k, s) ∨ x ∈ m := by
  induction m with
  | nil => simpa [FMap.insert] using h
  | cons e r ih =>
    obtain ⟨ke, se⟩ := e
    unfold FMap.insert at h
    by_cases h1 : k < ke
    · rw [if_pos h1] at h
      rcases List.mem_cons.mp h with h | h
      · exact Or.inl h
      · exact Or.inr h
    · rw [if_neg h1] at h
      by_cases h2 : k = ke
      · rw [if_pos h2] at h
        rcases List.mem_cons.mp h with h | h
        · exact Or.inl h
        · exact Or.inr (List.mem_cons_of_mem _ h)
      · rw [if_neg h2] at h
        rcases List.mem_cons.mp h with h | h
        · exact Or.inr (h ▸ List.mem_cons_self)
        · rcases ih h with h | h
          · exact Or.inl h
          · exact Or.inr (List.mem_cons_of_mem _ h)

theorem sorted_insert {m : FMap} (hs : Sorted m) (k : Key) (s : Slot) : Sorted (m.insert k s) := by
  induction m with
  | nil => exact List.pairwise_singleton _ _
  | cons e r ih =>
    obtain ⟨ke, se⟩ := e
    obtain ⟨h1, h2⟩ := sorted_cons.mp hs
    unfold FMap.insert
    by_cases hlt : k < ke
    · rw [if_pos hlt]
      refine sorted_cons.mpr ⟨?_, hs⟩
      intro x hx
      rcases List.mem_cons.mp hx with rfl | hx
      · exact hlt
      · exact Key.lt_trans hlt (h1 x hx)
    · rw [if_neg hlt]
      by_cases heq : k = ke
      · subst heq
        rw [if_pos rfl]
        exact sorted_cons.mpr ⟨h1, h2⟩
      · rw [if_neg heq]
        refine sorted_cons.mpr ⟨?_, ih h2⟩
        intro x hx
        rcases mem_insert hx with rfl | hx
        · exact Key.lt_of_not_lt_of_ne hlt heq
        · exact h1 x hx

theorem get_filter_key (f : Key → Bool) (m : FMap) (k : Key) :
    FMap.get (m.filter (fun e => f e.1)) k = if f k then m.get k else none := by
  induction m with
  | nil => simp [FMap.get]
  | cons e r ih =>
    rw [List.filter_cons]
    by_cases hf : f e.1 = true
    · rw [if_pos hf, get_cons, get_cons, ih]
      by_cases hk : k = e.1
      · subst hk; simp [hf]
      · simp [hk]
    · rw [if_neg hf, ih, get_cons]
      by_cases hk : k = e.1
      · subst hk; simp [hf]
      · simp [hk]

theorem get_remove (m : FMap) (k k' : Key) :
    (m.remove k).get k' = if k' = k then none else m.get k' := by
  unfold FMap.remove
  rw [get_filter_key (fun x => x != k)]
  by_cases h : k' = k <;> simp [h]

theorem sorted_filter {m : FMap} (hs : Sorted m) (f : Key × Slot → Bool) : Sorted (m.filter f) :=
  List.Pairwise.filter f hs

theorem sorted_remove {m : FMap} (hs : Sorted m) (k : Key) : Sorted (m.remove k) :=
  sorted_filter hs _

theorem get_orInsert (m : FMap) (k : Key) (s : Slot) (k' : Key) :
    (m.orInsert k s).get k' =
      match m.get k' with
      | some x => some x
      | none => if k' = k then some s else none := by
  unfold FMap.orInsert
  cases h : m.get k with
  | some x =>
    simp only
    cases h' : m.get k' with
    | some y => rfl
    | none =>
      have : k' ≠ k := fun e => by rw [e, h] at h'; cases h'
      simp [this]
  | none =>
    simp only
    rw [get_insert]
    by_cases hk : k' = k
    · subst hk; simp [h]
    · simp only [hk, if_false]
      cases m.get k' <;> rfl

theorem sorted_orInsert {m : FMap} (hs : Sorted m) (k : Key) (s : Slot) : Sorted (m.orInsert k s) := by
  unfold FMap.orInsert
  cases m.get k with
  | some _ => exact hs
  | none => exact sorted_insert hs k s

/-- two sorted maps with the same lookups are the same list -/
theorem sorted_ext : ∀ {a b : FMap}, Sorted a → Sorted b → (∀ k, a.get k = b.get k) → a = b
  | [], [], _, _, _ => rfl
  | [], e :: r, _, _, h => by
    have := h e.1
    rw [get_cons] at this
    simp [FMap.get] at this
  | e :: r, [], _, _, h => by
    have := h e.1
    rw [get_cons] at this
    simp [FMap.get] at this
  | e :: r, e' :: r', ha, hb, h => by
    obtain ⟨a1, a2⟩ := sorted_cons.mp ha
    obtain ⟨b1, b2⟩ := sorted_cons.mp hb
    have hk : e.1 = e'.1 := by
      by_cases hlt : e.1 < e'.1
      · have := h e.1
        rw [get_cons, if_pos rfl, get_cons, if_neg (Key.ne_of_lt hlt),
          get_none_of_lt_all (fun x hx => Key.lt_trans hlt (b1 x hx))] at this
        cases this
      · by_cases heq : e.1 = e'.1
        · exact heq
        · have hgt := Key.lt_of_not_lt_of_ne hlt heq
          have := h e'.1
          rw [get_cons e', if_pos rfl, get_cons, if_neg (Key.ne_of_lt hgt),
            get_none_of_lt_all (fun x hx => Key.lt_trans hgt (a1 x hx))] at this
          cases this
    have hv : e.2 = e'.2 := by
      have := h e.1
      rw [get_cons, if_pos rfl, get_cons, if_pos hk] at this
      exact Option.some.inj this
    have he : e = e' := Prod.ext hk hv
    subst he
    have : r = r' := by
      apply sorted_ext a2 b2
      intro k
      have hk' := h k
      rw [get_cons, get_cons] at hk'
      by_cases hke : k = e.1
      · subst hke
        rw [get_none_of_lt_all a1, get_none_of_lt_all b1]
      · simpa [hke] using hk'
    rw [this]

/-! ### folds of `insert` / `or_insert` -/

theorem get_foldl_orInsert (l : FMap) (acc : FMap) (k : Key) :
    (l.foldl (fun a e => a.orInsert e.1 e.2) acc).get k =
      match acc.get k with
      | some x => some x
      | none => l.get k := by
  induction l generalizing acc with
  | nil => simp only [List.foldl_nil]; cases acc.get k <;> rfl
  | cons e r ih =>
    rw [List.foldl_cons, ih, get_orInsert, get_cons]
    cases acc.get k with
    | some x => rfl
    | none =>
      by_cases hk : k = e.1 <;> simp [hk]

theorem sorted_foldl_orInsert (l : FMap) {acc : FMap} (hs : Sorted acc) :
    Sorted (l.foldl (fun a e => a.orInsert e.1 e.2) acc) := by
  induction l generalizing acc with
  | nil => exact hs
  | cons e r ih => exact ih (sorted_orInsert hs _ _)

theorem get_foldl_insert {l : FMap} (hl : Sorted l) (acc : FMap) (k : Key) :
    (l.foldl (fun a e => a.insert e.1 e.2) acc).get k =
      match l.get k with
      | some x => some x
      | none => acc.get k := by
  induction l generalizing acc with
  | nil => rfl
  | cons e r ih =>
    obtain ⟨h1, h2⟩ := sorted_cons.mp hl
    rw [List.foldl_cons, ih h2, get_insert, get_cons]
    by_cases hk : k = e.1
    · subst hk
      rw [get_none_of_lt_all h1]
      simp
    · simp [hk]

theorem sorted_foldl_insert (l : FMap) {acc : FMap} (hs : Sorted acc) :
    Sorted (l.foldl (fun a e => a.insert e.1 e.2) acc) := by
  induction l generalizing acc with
  | nil => exact hs
  | cons e r ih => exact ih (sorted_insert hs _ _)

/-! ### `find_prefixes` is the filter by prefix -/

theorem dropWhile_lt_eq_filter {m : FMap} (hs : Sorted m) (p : Key) :
    m.dropWhile (fun e => decide (e.1 < p)) = m.filter (fun e => !decide (e.1 < p)) := by
  induction m with
  | nil => rfl
  | cons e r ih =>
    obtain ⟨h1, h2⟩ := sorted_cons.mp hs
    rw [List.dropWhile_cons, List.filter_cons]
    by_cases h : e.1 < p
    · simp only [h, decide_true, if_true, Bool.not_true, Bool.false_eq_true, if_false]
      exact ih h2
    · simp only [h, decide_false, Bool.false_eq_true, if_false, Bool.not_false, if_true]
      congr 1
      symm
      apply List.filter_eq_self.mpr
      intro x hx
      have : ¬ x.1 < p := fun hxp => h (Key.lt_trans (h1 x hx) hxp)
      simp [this]

theorem takeWhile_prefix_eq_filter {m : FMap} (hs : Sorted m) (p : Key)
    (hge : ∀ x ∈ m, ¬ x.1 < p) :
    m.takeWhile (fun e => p.isPrefixOf e.1) = m.filter (fun e => p.isPrefixOf e.1) := by
  induction m with
  | nil => rfl
  | cons e r ih =>
    obtain ⟨h1, h2⟩ := sorted_cons.mp hs
    rw [List.takeWhile_cons, List.filter_cons]
    by_cases h : p.isPrefixOf e.1 = true
    · rw [if_pos h, if_pos h, ih h2 (fun x hx => hge x (List.mem_cons_of_mem _ hx))]
    · rw [if_neg h, if_neg h]
      symm
      apply List.filter_eq_nil_iff.mpr
      intro x hx hpx
      apply h
      rw [List.isPrefixOf_iff_prefix] at hpx ⊢
      have hpe : p ≤ e.1 := List.not_lt.mp (hge e List.mem_cons_self)
      have hex : e.1 ≤ x.1 := Std.le_of_lt (h1 x hx)
      exact prefix_between hpe hex hpx

/-- `range(prefix..).take_while(starts_with(prefix))` on a sorted map returns exactly the
entries whose key starts with the prefix (in order). -/
theorem findPrefixes_eq_filter {m : FMap} (hs : Sorted m) (p : Key) :
    findPrefixes m p = m.filter (fun e => p.isPrefixOf e.1) := by
  unfold findPrefixes
  rw [dropWhile_lt_eq_filter hs, takeWhile_prefix_eq_filter (sorted_filter hs _)]
  · rw [List.filter_filter]
    apply List.filter_congr
    intro x _
    by_cases hp : p.isPrefixOf x.1 = true
    · have := Key.not_lt_of_prefix (List.isPrefixOf_iff_prefix.mp hp)
      simp [hp, this]
    · simp [hp]
  · intro x hx
    have := (List.mem_filter.mp hx).2
    simpa using this

theorem sorted_findPrefixes {m : FMap} (hs : Sorted m) (p : Key) : Sorted (findPrefixes m p) := by
  rw [findPrefixes_eq_filter hs]; exact sorted_filter hs _

theorem get_findPrefixes {m : FMap} (hs : Sorted m) (p k : Key) :
    (findPrefixes m p).get k = if p.isPrefixOf k then m.get k else none := by
  rw [findPrefixes_eq_filter hs, get_filter_key (fun x => p.isPrefixOf x)]

/-! ### `live`: dropping tombstones -/

theorem mem_live {m : FMap} (hs : Sorted m) (k : Key) (v : Val) :
    (k, v) ∈ live m ↔ m.get k = some (some v) := by
  unfold live
  rw [List.mem_filterMap]
  constructor
  · rintro ⟨⟨k', s⟩, hm, he⟩
    cases s with
    | none => simp at he
    | some v' =>
      simp only [Option.map_some, Option.some.injEq, Prod.mk.injEq] at he
      obtain ⟨rfl, rfl⟩ := he
      exact get_of_mem hs hm
  · intro h
    exact ⟨(k, some v), mem_of_get h, rfl⟩

theorem live_cons_none (k : Key) (r : FMap) : live ((k, none) :: r) = live r := rfl
theorem live_cons_some (k : Key) (v : Val) (r : FMap) : live ((k, some v) :: r) = (k, v) :: live r := rfl

theorem live_ascending {m : FMap} (hs : Sorted m) : (live m).Pairwise (fun a b => a.1 < b.1) := by
  induction m with
  | nil => exact List.Pairwise.nil
  | cons e r ih =>
    obtain ⟨h1, h2⟩ := sorted_cons.mp hs
    obtain ⟨k, s⟩ := e
    cases s with
    | none => rw [live_cons_none]; exact ih h2
    | some v =>
      rw [live_cons_some]
      refine List.pairwise_cons.mpr ⟨?_, ih h2⟩
      intro x hx
      have hx' : (x.1, x.2) ∈ live r := hx
      have := mem_of_get ((mem_live h2 x.1 x.2).mp hx')
      exact h1 _ this

end AranyaV.Facts
