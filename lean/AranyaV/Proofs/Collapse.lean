import AranyaV.Props.C05
import AranyaV.Proofs.BraidExt
/-!
# Proofs.Collapse — the fact state of a braid, declaratively; the pairwise collapse of a head set

The run-level statement "the braid of the last fold merge equals the N-way braid of the heads" is
false (merges are popped in id order, a stored merge of the graph may be popped before a fold
merge and the folded run may stop early on a lone fold merge).  The *facts* agree, and the reason
is a declarative characterisation of the fact state of a command / head set that does not mention
the run at all:

* `Greedy g R o` — `o` (evaluation order, most recently removed first) is a *greedy
  linearisation* of the non-merge commands of the region `R`: each removed command is the
  `keyLt`-least among the non-merge commands all of whose non-merge descendants in `R` were removed
  before.  `Full` = it exhausts the non-merge commands of `R`.  Such a list is unique
  (`Full.unique`).
* `states_sem` — in a graph whose merges carry the (least) `Merge` priority, whose merges have
  incomparable parents and whose merge braids succeed, the stored state of *every* command `x` is
  `applyOrder L {}` for the full greedy linearisation `L` of `anc*(x)`: stopping at a lone strand
  and replaying on top of its stored state is only memoisation.  `factsOf_sem` is the same for a
  head set.
* `fold_*` — the graph with the fold merges appended: well-formedness, the invariants above, and
  `anc*(top)` has the same non-merge commands (with the same ancestry) as `anc*(heads)`.
* `state_unclean` — a command with two incomparable finalizes among its ancestors stores
  `parallelFinalize` (error side).
-/
namespace AranyaV.Spec
open AranyaV.Gen

/-! ## hypotheses on committed graphs -/

/-- merges, and only merges, carry the `Merge` priority (the least class) -/
def MergePrio (g : Graph) : Prop := ∀ c ∈ g, (isMerge c = true ↔ c.prio = Priority.merge)

/-- the two parents of every merge are incomparable -/
def MergeAnti (g : Graph) : Prop := ∀ c ∈ g, ∀ l r, c.parents = [l, r] → Antichain g [l, r]

/-- the braid of every stored merge succeeded -/
def MergeBraidOk (g : Graph) : Prop :=
  ∀ c ∈ g, ∀ l r, c.parents = [l, r] → ∃ s o, refBraid g [l, r] = .ok (s, o)

/-! ## greedy linearisations -/

/-- `x` is removable after `o`: a non-merge command of the region, not yet removed, all of whose
non-merge proper descendants inside the region have been removed -/
def Cand (g : Graph) (R o : List Nat) (x : Nat) : Prop :=
  x ∈ R ∧ isMergeId g x = false ∧ x ∉ o ∧
    ∀ y ∈ R, isMergeId g y = false → Reach g x y → y ≠ x → y ∈ o

/-- strand key order on ids -/
def kLt (g : Graph) (a b : Nat) : Prop :=
  ∃ ca cb, g.find? a = some ca ∧ g.find? b = some cb ∧ keyLt ca cb = true

theorem kLt_asymm {g : Graph} {a b : Nat} (h1 : kLt g a b) (h2 : kLt g b a) : False := by
  obtain ⟨ca, cb, ha, hb, hk⟩ := h1
  obtain ⟨cb', ca', hb', ha', hk'⟩ := h2
  rw [ha] at ha'; rw [hb] at hb'
  cases ha'; cases hb'
  have := keyLt_asymm hk
  rw [hk'] at this; cases this

/-- greedy linearisation (head of the list = removed last = evaluated first) -/
inductive Greedy (g : Graph) (R : List Nat) : List Nat → Prop
  | nil : Greedy g R []
  | cons {c : Nat} {o : List Nat} : Greedy g R o → Cand g R o c →
      (∀ d, Cand g R o d → d ≠ c → kLt g c d) → Greedy g R (c :: o)

theorem Greedy.mem {g : Graph} {R o : List Nat} (h : Greedy g R o) :
    ∀ x ∈ o, x ∈ R ∧ isMergeId g x = false := by
  induction h with
  | nil => intro x hx; simp at hx
  | cons _ hc _ ih =>
    intro x hx
    rcases List.mem_cons.mp hx with rfl | hx
    · exact ⟨hc.1, hc.2.1⟩
    · exact ih x hx

theorem Greedy.nodup {g : Graph} {R o : List Nat} (h : Greedy g R o) : o.Nodup := by
  induction h with
  | nil => simp
  | cons _ hc _ ih => exact List.nodup_cons.mpr ⟨hc.2.2.1, ih⟩

/-- two greedy linearisations of the same length are equal -/
theorem Greedy.unique {g : Graph} {R : List Nat} : ∀ {o1 o2 : List Nat}, Greedy g R o1 → Greedy g R o2 →
    o1.length = o2.length → o1 = o2 := by
  intro o1 o2 h1
  induction h1 generalizing o2 with
  | nil =>
    intro _ hl
    exact (List.length_eq_zero_iff.mp hl.symm).symm
  | @cons c o hg hc hmin ih =>
    intro h2 hl
    cases h2 with
    | nil => simp at hl
    | @cons c2 o2' hg2 hc2 hmin2 =>
      have e := ih hg2 (by simpa using hl)
      subst e
      by_cases ec : c = c2
      · rw [ec]
      · exact (kLt_asymm (hmin c2 hc2 (Ne.symm ec)) (hmin2 c hc ec)).elim

/-- a greedy linearisation that exhausts the non-merge commands of the region -/
def Full (g : Graph) (R o : List Nat) : Prop :=
  Greedy g R o ∧ ∀ x ∈ R, isMergeId g x = false → x ∈ o

theorem Full.unique {g : Graph} {R o1 o2 : List Nat} (h1 : Full g R o1) (h2 : Full g R o2) : o1 = o2 := by
  apply Greedy.unique h1.1 h2.1
  apply List.Perm.length_eq
  rw [List.perm_ext_iff_of_nodup h1.1.nodup h2.1.nodup]
  intro a
  constructor
  · intro ha; obtain ⟨hr, hm⟩ := h1.1.mem a ha; exact h2.2 a hr hm
  · intro ha; obtain ⟨hr, hm⟩ := h2.1.mem a ha; exact h1.2 a hr hm

theorem Cand.congr_region {g : Graph} {R R' o : List Nat}
    (hR : ∀ x, isMergeId g x = false → (x ∈ R ↔ x ∈ R')) {x : Nat} (h : Cand g R o x) : Cand g R' o x := by
  obtain ⟨h1, h2, h3, h4⟩ := h
  exact ⟨(hR x h2).mp h1, h2, h3, fun y hy hm hr hne => h4 y ((hR y hm).mpr hy) hm hr hne⟩

/-- `Greedy` depends on the region only through its non-merge members -/
theorem Greedy.congr_region {g : Graph} {R R' o : List Nat}
    (hR : ∀ x, isMergeId g x = false → (x ∈ R ↔ x ∈ R')) (h : Greedy g R o) : Greedy g R' o := by
  induction h with
  | nil => exact Greedy.nil
  | cons _ hc hmin ih =>
    refine Greedy.cons ih (hc.congr_region hR) ?_
    intro d hd hne
    exact hmin d (hd.congr_region (fun x hx => (hR x hx).symm)) hne

theorem Full.congr_region {g : Graph} {R R' o : List Nat}
    (hR : ∀ x, isMergeId g x = false → (x ∈ R ↔ x ∈ R')) (h : Full g R o) : Full g R' o :=
  ⟨h.1.congr_region hR, fun x hx hm => h.2 x ((hR x hm).mpr hx) hm⟩

/-! ## the run produces a greedy linearisation -/

/-- every unprocessed command of the region is an ancestor-or-self of an available one -/
theorem unprocessed_below_avail {g : Graph} {R : List Nat} {s : BState} (hw : WF g) (hR : Region g R)
    (hi : Inv g R s) : ∀ u ∈ R, u ∉ s.processed → ∃ a ∈ s.avail, Reach g u a := by
  have key : ∀ n u, g.length - (ids g).idxOf u ≤ n → u ∈ R → u ∉ s.processed →
      ∃ a ∈ s.avail, Reach g u a := by
    intro n
    induction n with
    | zero =>
      intro u hn huR _
      have := List.idxOf_lt_length_of_mem (hR.sub u huR)
      simp [ids] at this hn
      omega
    | succ n ih =>
      intro u hn huR huP
      by_cases huA : u ∈ s.avail
      · exact ⟨u, huA, Reach.refl _⟩
      · have : ∃ y, y ∈ R ∧ Par g u y ∧ y ∉ s.processed := by
          apply Classical.byContradiction
          intro hno
          apply huA
          refine (hi.aIff u).mpr ⟨huR, huP, ?_⟩
          intro y hy hp
          apply Classical.byContradiction
          intro hyP
          exact hno ⟨y, hy, hp, hyP⟩
        obtain ⟨y, hyR, hp, hyP⟩ := this
        have hlt := hp.idx_lt hw
        have hylt := List.idxOf_lt_length_of_mem (hR.sub y hyR)
        simp [ids] at hylt
        obtain ⟨a, ha, hr⟩ := ih y (by omega) hyR hyP
        exact ⟨a, ha, Reach.head hp hr⟩
  intro u
  exact key _ u (Nat.le_refl _)

/-- `braidLoop_invariant` with the minimality of the removed command available to the step -/
theorem braidLoop_invariant_min {g : Graph} {R : List Nat} (hw : WF g) (hR : Region g R) (K : BState → Prop)
    (hK : ∀ (s : BState) (c : Cmd) (a : List Nat), Inv g R s → K s → c ∈ g → c.id ∈ s.avail →
      (∀ d ∈ g, d.id ∈ s.avail → d.id ≠ c.id → keyLt c d = true) →
      (∃ d ∈ s.avail, d ≠ c.id) →
      addAvail g (nextState g R s c).1.avail (nextState g R s c).2.eraseDups = .ok a →
      K { (nextState g R s c).1 with avail := a }) :
    ∀ (fuel : Nat) (s : BState), Inv g R s → K s → ∀ x o, braidLoop g R fuel s = .ok (x, o) →
      ∃ s', Inv g R s' ∧ K s' ∧ s'.avail = [x] ∧ s'.out = o := by
  intro fuel
  induction fuel with
  | zero => intro s _ _ x o h; simp [braidLoop] at h
  | succ fuel ih =>
    intro s hi hk x o h
    by_cases h1 : ∃ y, s.avail = [y]
    · obtain ⟨y, hy⟩ := h1
      rw [braidLoop_one g R fuel s y hy] at h
      simp only [Except.ok.injEq, Prod.mk.injEq] at h
      obtain ⟨rfl, rfl⟩ := h
      exact ⟨s, hi, hk, hy, rfl⟩
    · have h1' : ∀ y, s.avail ≠ [y] := fun y hy => h1 ⟨y, hy⟩
      have hAsub : ∀ y ∈ s.avail, y ∈ ids g := fun y hy => hR.sub y ((hi.aIff y).mp hy).1
      obtain ⟨c, hm, hcg, hcA, hmin⟩ := minAvail_spec hw s.avail hi.aNe hAsub
      have h2 := exists_ne_of_not_single hi.aNodup hi.aNe h1' c.id
      rw [braidLoop_succ g R fuel s h1' c hm] at h
      cases ha : addAvail g (nextState g R s c).1.avail (nextState g R s c).2.eraseDups with
      | error e => rw [ha] at h; simp at h
      | ok a =>
        rw [ha] at h
        exact ih _ (step_inv hw hR hi c hcg hcA hmin h2 a ha) (hK s c a hi hk hcg hcA hmin h2 ha) x o h

/-- a non-merge command is never below a merge in the key order -/
theorem keyLt_merge_false {g : Graph} (hp : MergePrio g) {c d : Cmd} (hc : c ∈ g) (hd : d ∈ g)
    (hcm : isMerge c = false) (hdm : isMerge d = true) : keyLt c d = false := by
  have h1 : d.prio = Priority.merge := (hp d hd).mp hdm
  have h2 : c.prio ≠ Priority.merge := fun h => by
    have := (hp c hc).mpr h; rw [hcm] at this; cases this
  cases hk : keyLt c d with
  | false => rfl
  | true =>
    rw [keyLt_iff, h1] at hk
    cases hcp : c.prio <;> simp [hcp, Priority.cls, Priority.arg] at hk h2

theorem greedy_step {g : Graph} {R : List Nat} {s : BState} (hw : WF g) (hR : Region g R) (hp : MergePrio g)
    (hi : Inv g R s) (hk : Greedy g R s.out) {c : Cmd} (hcg : c ∈ g) (hcA : c.id ∈ s.avail)
    (hmin : ∀ d ∈ g, d.id ∈ s.avail → d.id ≠ c.id → keyLt c d = true) :
    Greedy g R (if isMerge c then s.out else c.id :: s.out) := by
  cases hm : isMerge c with
  | true => simpa using hk
  | false =>
    simp only [Bool.false_eq_true, if_false]
    obtain ⟨hcR, hcP, hcCh⟩ := (hi.aIff c.id).mp hcA
    have hcm : isMergeId g c.id = false := by rw [isMergeId_cmd hw hcg]; exact hm
    have hout : ∀ y, y ∈ s.out ↔ y ∈ s.processed ∧ isMergeId g y = false := by
      intro y; rw [hi.outEq, List.mem_filter]; simp
    -- no merge is available
    have hnoM : ∀ a ∈ s.avail, isMergeId g a = false := by
      intro a ha
      by_cases e : a = c.id
      · rw [e]; exact hcm
      · obtain ⟨ca, hca, rfl⟩ := mem_ids.mp (hR.sub a ((hi.aIff a).mp ha).1)
        have hk := hmin ca hca ha e
        rw [isMergeId_cmd hw hca]
        cases hma : isMerge ca with
        | false => rfl
        | true => rw [keyLt_merge_false hp hcg hca hm hma] at hk; cases hk
    refine Greedy.cons hk ⟨hcR, hcm, fun h => hcP ((hout _).mp h).1, ?_⟩ ?_
    · intro y hyR hym hr hne
      rcases hr.cases_head with e | ⟨m, hpm, hrm⟩
      · exact absurd e.symm hne
      · have hmR := hR.reach hyR hrm
        have hmP := hcCh m hmR hpm
        exact (hout y).mpr ⟨hi.closed_reach hR hmP hrm hyR, hym⟩
    · intro d hd hne
      obtain ⟨hdR, hdm, hdo, hdd⟩ := hd
      have hdP : d ∉ s.processed := fun h => hdo ((hout d).mpr ⟨h, hdm⟩)
      have hdA : d ∈ s.avail := by
        refine (hi.aIff d).mpr ⟨hdR, hdP, ?_⟩
        intro y hyR hpy
        apply Classical.byContradiction
        intro hyP
        obtain ⟨a, haA, hra⟩ := unprocessed_below_avail hw hR hi y hyR hyP
        obtain ⟨haR, haP, _⟩ := (hi.aIff a).mp haA
        have hda : Reach g d a := Reach.head hpy hra
        have hne' : a ≠ d := by
          intro e; subst e
          exact hpy.not_reach_back hw hra
        exact haP ((hout a).mp (hdd a haR (hnoM a haA) hda hne')).1
      obtain ⟨cd, hcd, rfl⟩ := mem_ids.mp (hR.sub d hdR)
      exact ⟨c, cd, (find?_eq_some hw).mpr ⟨hcg, rfl⟩, (find?_eq_some hw).mpr ⟨hcd, rfl⟩,
        hmin cd hcd hdA hne⟩

theorem braidLoop_greedy {g : Graph} {R : List Nat} (hw : WF g) (hR : Region g R) (hp : MergePrio g) :
    ∀ (fuel : Nat) (s : BState), Inv g R s → Greedy g R s.out → ∀ x o, braidLoop g R fuel s = .ok (x, o) →
      ∃ s', Inv g R s' ∧ Greedy g R s'.out ∧ s'.avail = [x] ∧ s'.out = o := by
  apply braidLoop_invariant_min hw hR (fun s => Greedy g R s.out)
  intro s c a hi hk hcg hcA hmin _ _
  exact greedy_step hw hR hp hi hk hcg hcA hmin

/-- the order of a successful braid is a greedy linearisation of the region; the final state -/
theorem refBraid_greedy {g : Graph} (hw : WF g) (hp : MergePrio g) {hs : List Nat} (hh : Heads g hs)
    {x : Nat} {o : List Nat} (h : refBraid g hs = .ok (x, o)) :
    ∃ s', Inv g (ancSelfAll g hs) s' ∧ s'.avail = [x] ∧ s'.out = o ∧ Greedy g (ancSelfAll g hs) o := by
  unfold refBraid at h
  cases ha : addAvail g [] hs with
  | error e => rw [ha] at h; simp at h
  | ok a =>
    rw [ha] at h
    simp only at h
    have hi := init_inv hw hh a ha
    obtain ⟨s', h1, h2, h3, h4⟩ := braidLoop_greedy hw (region_ancSelfAll hw hh.sub) hp _ _ hi Greedy.nil x o h
    exact ⟨s', h1, h3, h4, h4 ▸ h2⟩

/-! ## below the start: the order continues the greedy linearisation of the start's ancestors -/

theorem final_out_iff {g : Graph} {R : List Nat} {s : BState} (hw : WF g) (hR : Region g R)
    (hi : Inv g R s) {x : Nat} (hx : s.avail = [x]) (u : Nat) :
    u ∈ s.out ↔ u ∈ R ∧ ¬ Reach g u x ∧ isMergeId g u = false := by
  rw [hi.outEq, List.mem_filter, final_processed_iff hw hR hi hx]
  simp [and_assoc]

theorem greedy_extend {g : Graph} {R Rx o L0 : List Nat} {x : Nat} (hR : Region g R) (hxR : x ∈ R)
    (hRx : ∀ u, u ∈ Rx ↔ Reach g u x)
    (ho : ∀ u, u ∈ o ↔ u ∈ R ∧ ¬ Reach g u x ∧ isMergeId g u = false)
    (hg : Greedy g R o) (h0 : Greedy g Rx L0) : Greedy g R (L0 ++ o) := by
  induction h0 with
  | nil => simpa using hg
  | @cons c L hL hc hmin ih =>
    rw [List.cons_append]
    refine Greedy.cons ih ?_ ?_
    · obtain ⟨h1, h2, h3, h4⟩ := hc
      have hcx := (hRx c).mp h1
      refine ⟨hR.reach hxR hcx, h2, ?_, ?_⟩
      · intro h
        rcases List.mem_append.mp h with h | h
        · exact h3 h
        · exact ((ho c).mp h).2.1 hcx
      · intro y hyR hym hr hne
        by_cases hyx : Reach g y x
        · exact List.mem_append_left _ (h4 y ((hRx y).mpr hyx) hym hr hne)
        · exact List.mem_append_right _ ((ho y).mpr ⟨hyR, hyx, hym⟩)
    · intro d hd hne
      obtain ⟨h1, h2, h3, h4⟩ := hd
      have hdx : Reach g d x := by
        apply Classical.byContradiction
        intro hn
        exact h3 (List.mem_append_right _ ((ho d).mpr ⟨h1, hn, h2⟩))
      apply hmin d ⟨(hRx d).mpr hdx, h2, fun h => h3 (List.mem_append_left _ h), ?_⟩ hne
      intro y hy hym hr hne'
      have hyx := (hRx y).mp hy
      rcases List.mem_append.mp (h4 y (hR.reach hxR hyx) hym hr hne') with h | h
      · exact h
      · exact absurd hyx ((ho y).mp h).2.1

theorem full_extend {g : Graph} {R Rx o L0 : List Nat} {x : Nat} (hR : Region g R) (hxR : x ∈ R)
    (hRx : ∀ u, u ∈ Rx ↔ Reach g u x)
    (ho : ∀ u, u ∈ o ↔ u ∈ R ∧ ¬ Reach g u x ∧ isMergeId g u = false)
    (hg : Greedy g R o) (h0 : Full g Rx L0) : Full g R (L0 ++ o) := by
  refine ⟨greedy_extend hR hxR hRx ho hg h0.1, ?_⟩
  intro u huR hum
  by_cases hux : Reach g u x
  · exact List.mem_append_left _ (h0.2 u ((hRx u).mpr hux) hum)
  · exact List.mem_append_right _ ((ho u).mpr ⟨huR, hux, hum⟩)

theorem applyOrder_append (g : Graph) (a b : List Nat) (s : Facts) :
    applyOrder g (a ++ b) s = applyOrder g b (applyOrder g a s) := by
  simp [applyOrder, List.foldl_append]

theorem applyOrder_single {g : Graph} {i : Nat} {c : Cmd} (h : g.find? i = some c) (s : Facts) :
    applyOrder g [i] s = (rule c s).1 := by
  simp [applyOrder, h]

/-- `F` is the result of evaluating the full greedy linearisation of `R` from the empty state -/
def Sem (g : Graph) (R : List Nat) (F : Facts) : Prop := ∃ L, Full g R L ∧ F = applyOrder g L {}

theorem mem_anc_single {g : Graph} (hw : WF g) (x u : Nat) : u ∈ ancSelfAll g [x] ↔ Reach g u x := by
  rw [mem_ancSelfAll hw]; simp

/-- replaying the order of a successful braid on top of the start's state gives the greedy
evaluation of the whole region -/
theorem sem_heads {g : Graph} (hw : WF g) (hp : MergePrio g) {hs : List Nat} (hh : Heads g hs)
    {x : Nat} {o : List Nat} (h : refBraid g hs = .ok (x, o)) {s : Facts}
    (hs' : Sem g (ancSelfAll g [x]) s) : Sem g (ancSelfAll g hs) (applyOrder g o s) := by
  obtain ⟨st, hi, hA, hout, hgr⟩ := refBraid_greedy hw hp hh h
  obtain ⟨L0, hL0, rfl⟩ := hs'
  have hR := region_ancSelfAll hw hh.sub
  have hxR : x ∈ ancSelfAll g hs := ((hi.aIff x).mp (by rw [hA]; simp)).1
  have ho : ∀ u, u ∈ o ↔ u ∈ ancSelfAll g hs ∧ ¬ Reach g u x ∧ isMergeId g u = false := by
    intro u; rw [← hout]; exact final_out_iff hw hR hi hA u
  exact ⟨L0 ++ o, full_extend hR hxR (mem_anc_single hw x) ho hgr hL0, by rw [applyOrder_append]⟩

theorem reach_cmd {g : Graph} (hw : WF g) {c : Cmd} (hc : c ∈ g) (u : Nat) :
    Reach g u c.id ↔ u = c.id ∨ ∃ p ∈ c.parents, Reach g u p := by
  constructor
  · intro h
    cases h with
    | refl => exact Or.inl rfl
    | tail hr hp => exact Or.inr ⟨_, (par_cmd hw hc).mp hp, hr⟩
  · rintro (rfl | ⟨p, hp, hr⟩)
    · exact Reach.refl _
    · exact Reach.tail hr ((par_cmd hw hc).mpr hp)

/-- a non-merge command is the first evaluated-last command of its own ancestry -/
theorem greedy_top {g : Graph} (hw : WF g) {c : Cmd} (hc : c ∈ g) (hm : isMerge c = false) :
    Greedy g (ancSelfAll g [c.id]) [c.id] := by
  have hcm : isMergeId g c.id = false := by rw [isMergeId_cmd hw hc]; exact hm
  refine Greedy.cons Greedy.nil ⟨(mem_anc_single hw _ _).mpr (Reach.refl _), hcm, by simp, ?_⟩ ?_
  · intro y hy _ hr hne
    exact absurd (Reach.antisymm hw ((mem_anc_single hw _ _).mp hy) hr) hne
  · intro d hd hne
    have := hd.2.2.2 c.id ((mem_anc_single hw _ _).mpr (Reach.refl _)) hcm ((mem_anc_single hw _ _).mp hd.1)
      (Ne.symm hne)
    simp at this

/-! ## the table of stored states -/

/-- the state computed for one command, given the table so far (`allStates`' fold body) -/
def cStOf (G : Graph) (acc : List (Nat × Except BraidErr Facts)) (c : Cmd) : Except BraidErr Facts :=
  match c.parents with
  | [] => .ok (rule c {}).1
  | [p] => match acc.lookup p with
    | some (.ok s) => .ok (rule c s).1
    | some (.error e) => .error e
    | none => .error .malformed
  | [l, r] =>
    match refBraid G [l, r] with
    | .error e => .error e
    | .ok (start, order) => match acc.lookup start with
      | some (.ok s) => .ok (applyOrder G order s)
      | some (.error e) => .error e
      | none => .error .malformed
  | _ => .error .malformed

def cStStep (G : Graph) (acc : List (Nat × Except BraidErr Facts)) (c : Cmd) :
    List (Nat × Except BraidErr Facts) := acc ++ [(c.id, cStOf G acc c)]

/-- the table after the prefix `pre` (braids computed in the whole graph `G`) -/
def tbl (G pre : Graph) : List (Nat × Except BraidErr Facts) := pre.foldl (cStStep G) []

theorem allStates_eq_tbl (G : Graph) : allStates G = tbl G G := rfl

theorem stateAt_eq_tbl (G : Graph) (i : Nat) :
    stateAt G i = match (tbl G G).lookup i with
      | some s => s
      | none => .error .malformed := rfl

theorem tbl_snoc (G pre : Graph) (c : Cmd) :
    tbl G (pre ++ [c]) = tbl G pre ++ [(c.id, cStOf G (tbl G pre) c)] := by
  simp [tbl, List.foldl_append, cStStep]

theorem tbl_keys (G : Graph) (pre : Graph) : (tbl G pre).map Prod.fst = ids pre := by
  have : ∀ (post : Graph) (acc : List (Nat × Except BraidErr Facts)),
      (post.foldl (cStStep G) acc).map Prod.fst = acc.map Prod.fst ++ ids post := by
    intro post
    induction post with
    | nil => intro acc; simp [ids]
    | cons c t ih => intro acc; simp [List.foldl_cons, ih, cStStep, ids]
  simpa [tbl] using this pre []

theorem tbl_lookup_none {G pre : Graph} {x : Nat} (h : x ∉ ids pre) : (tbl G pre).lookup x = none := by
  rw [List.lookup_eq_none_iff]
  intro p hp
  have : p.1 ∈ ids pre := by rw [← tbl_keys G pre]; exact List.mem_map_of_mem hp
  simp only [bne_iff_ne, ne_eq]
  intro e; rw [e] at h; exact h this

theorem tbl_append (G pre post : Graph) : ∃ ext, tbl G (pre ++ post) = tbl G pre ++ ext := by
  have : ∀ (post : Graph) (acc : List (Nat × Except BraidErr Facts)),
      ∃ ext, post.foldl (cStStep G) acc = acc ++ ext := by
    intro post
    induction post with
    | nil => intro acc; exact ⟨[], by simp⟩
    | cons c t ih =>
      intro acc
      obtain ⟨ext, he⟩ := ih (cStStep G acc c)
      exact ⟨(c.id, cStOf G acc c) :: ext, by rw [List.foldl_cons, he]; simp [cStStep]⟩
  simpa [tbl, List.foldl_append] using this post (tbl G pre)

theorem tbl_lookup_mono {G pre : Graph} (post : Graph) {x : Nat} {v : Except BraidErr Facts}
    (h : (tbl G pre).lookup x = some v) : (tbl G (pre ++ post)).lookup x = some v := by
  obtain ⟨ext, he⟩ := tbl_append G pre post
  rw [he, List.lookup_append, h]; rfl

theorem snoc_ind {α : Type} {P : List α → Prop} (h0 : P []) (h1 : ∀ l a, P l → P (l ++ [a])) :
    ∀ l, P l := by
  have : ∀ l : List α, P l.reverse := by
    intro l
    induction l with
    | nil => simpa using h0
    | cons a t ih => rw [List.reverse_cons]; exact h1 _ _ ih
  intro l
  simpa using this l.reverse

theorem WF.prefix {a : Graph} : ∀ b : Graph, WF (a ++ b) → WF a := by
  intro b
  induction b using snoc_ind with
  | h0 => simp
  | h1 l c ih =>
    intro h
    rw [← List.append_assoc] at h
    exact ih h.snoc_inv.1

theorem states_sem_aux {G : Graph} (hw : WF G) (hp : MergePrio G) (ha : MergeAnti G) (hb : MergeBraidOk G) :
    ∀ pre post : Graph, G = pre ++ post → ∀ x ∈ ids pre,
      ∃ F, (tbl G pre).lookup x = some (.ok F) ∧ Sem G (ancSelfAll G [x]) F := by
  intro pre
  induction pre using snoc_ind with
  | h0 => intro post _ x hx; simp [ids] at hx
  | h1 init c ih =>
    intro post hG x hx
    have hG' : G = init ++ ([c] ++ post) := by rw [hG]; simp
    have hwp : WF (init ++ [c]) := WF.prefix post (hG ▸ hw)
    obtain ⟨hwi, hcid, hcpar⟩ := hwp.snoc_inv
    have hcG : c ∈ G := by rw [hG]; simp
    have hfc : G.find? c.id = some c := (find?_eq_some hw).mpr ⟨hcG, rfl⟩
    simp only [ids, List.map_append, List.map_cons, List.map_nil, List.mem_append, List.mem_singleton] at hx
    rcases hx with hx | rfl
    · obtain ⟨F, h1, h2⟩ := ih _ hG' x hx
      exact ⟨F, tbl_lookup_mono [c] h1, h2⟩
    · have hlook : (tbl G (init ++ [c])).lookup c.id = some (cStOf G (tbl G init) c) := by
        rw [tbl_snoc, List.lookup_append, tbl_lookup_none hcid]
        simp [List.lookup]
      rw [hlook]
      have hreach_init : ∀ {u b : Nat}, b ∈ ids init → Reach G u b → u ∈ ids init := by
        intro u b hb hr
        rw [hG'] at hr
        exact ((reach_ext _ (hG' ▸ hw) hb).mp hr).mem_ids hwi hb
      have hcidG : c.id ∈ ids G := mem_ids.mpr ⟨c, hcG, rfl⟩
      have hRc : Region G (ancSelfAll G [c.id]) := region_ancSelfAll hw (by simpa using hcidG)
      match hcp : c.parents with
      | [] =>
        have hm : isMerge c = false := by simp [isMerge, hcp]
        refine ⟨(rule c {}).1, by simp only [cStOf, hcp], [c.id], ⟨greedy_top hw hcG hm, ?_⟩,
          (applyOrder_single hfc _).symm⟩
        intro u hu _
        rcases (reach_cmd hw hcG u).mp ((mem_anc_single hw _ _).mp hu) with e | ⟨p, hp', _⟩
        · simp [e]
        · rw [hcp] at hp'; simp at hp'
      | [p] =>
        have hm : isMerge c = false := by simp [isMerge, hcp]
        have hcm : isMergeId G c.id = false := by rw [isMergeId_cmd hw hcG]; exact hm
        have hpI : p ∈ ids init := hcpar p (by simp [hcp])
        obtain ⟨s, h1, L0, hL0, rfl⟩ := ih _ hG' p hpI
        have hpar : Par G p c.id := (par_cmd hw hcG).mpr (by simp [hcp])
        refine ⟨(rule c (applyOrder G L0 {})).1, by simp only [cStOf, hcp, h1], L0 ++ [c.id], ?_, ?_⟩
        · refine full_extend hRc ((mem_anc_single hw _ _).mpr (Reach.single hpar)) (mem_anc_single hw p) ?_
            (greedy_top hw hcG hm) hL0
          intro u
          simp only [List.mem_singleton]
          constructor
          · rintro rfl
            exact ⟨(mem_anc_single hw _ _).mpr (Reach.refl _), hpar.not_reach_back hw, hcm⟩
          · rintro ⟨h1, h2, _⟩
            rcases (reach_cmd hw hcG u).mp ((mem_anc_single hw _ _).mp h1) with e | ⟨p', hp', hr⟩
            · exact e
            · rw [hcp] at hp'; simp at hp'; subst hp'; exact absurd hr h2
        · rw [applyOrder_append, applyOrder_single hfc]
      | [l, r] =>
        obtain ⟨start, order, hbr⟩ := hb c hcG l r hcp
        have hlr : l ≠ r := by
          have := hw.parents_nodup hcG; rw [hcp] at this; simpa using this
        have hh : Heads G [l, r] :=
          ⟨by simp, by simpa using hlr, fun y hy => hw.parents_mem hcG (hcp ▸ hy), ha c hcG l r hcp⟩
        obtain ⟨st, hist, hAst, _, _⟩ := refBraid_greedy hw hp hh hbr
        have hsR := ((hist.aIff start).mp (by rw [hAst]; simp)).1
        obtain ⟨b, hbm, hrb⟩ := (mem_ancSelfAll hw _ _).mp hsR
        have hsI : start ∈ ids init := hreach_init (hcpar b (hcp ▸ hbm)) hrb
        obtain ⟨s, h1, hsem⟩ := ih _ hG' start hsI
        obtain ⟨L, hL, hF⟩ := sem_heads hw hp hh hbr hsem
        refine ⟨applyOrder G order s, by simp only [cStOf, hcp, hbr, h1], L, hL.congr_region ?_, hF⟩
        intro u hum
        rw [mem_ancSelfAll hw, mem_anc_single hw, reach_cmd hw hcG, hcp]
        have hne : u ≠ c.id := by
          intro e; rw [e, isMergeId_cmd hw hcG] at hum; simp [isMerge, hcp] at hum
        simp [hne]
      | _ :: _ :: _ :: _ =>
        have := hw.arity hcG; rw [hcp] at this; simp at this

theorem heads_of_merge {G : Graph} (hw : WF G) (ha : MergeAnti G) {c : Cmd} (hcG : c ∈ G) {l r : Nat}
    (hcp : c.parents = [l, r]) : Heads G [l, r] := by
  have hlr : l ≠ r := by
    have := hw.parents_nodup hcG; rw [hcp] at this; simpa using this
  exact ⟨by simp, by simpa using hlr, fun y hy => hw.parents_mem hcG (hcp ▸ hy), ha c hcG l r hcp⟩

theorem state_unclean_aux {G : Graph} (hw : WF G) (hroot : Rooted G) (ha : MergeAnti G) :
    ∀ pre post : Graph, G = pre ++ post → ∀ x ∈ ids pre, ∀ f1 f2, Reach G f1 x → Reach G f2 x →
      isFinalize G f1 = true → isFinalize G f2 = true → ¬ Reach G f1 f2 → ¬ Reach G f2 f1 →
      (tbl G pre).lookup x = some (.error .parallelFinalize) := by
  intro pre
  induction pre using snoc_ind with
  | h0 => intro post _ x hx; simp [ids] at hx
  | h1 init c ih =>
    intro post hG x hx f1 f2 hr1 hr2 hf1 hf2 hn12 hn21
    have hG' : G = init ++ ([c] ++ post) := by rw [hG]; simp
    have hwp : WF (init ++ [c]) := WF.prefix post (hG ▸ hw)
    obtain ⟨hwi, hcid, hcpar⟩ := hwp.snoc_inv
    have hcG : c ∈ G := by rw [hG]; simp
    simp only [ids, List.map_append, List.map_cons, List.map_nil, List.mem_append, List.mem_singleton] at hx
    rcases hx with hx | rfl
    · exact tbl_lookup_mono [c] (ih _ hG' x hx f1 f2 hr1 hr2 hf1 hf2 hn12 hn21)
    · have hlook : (tbl G (init ++ [c])).lookup c.id = some (cStOf G (tbl G init) c) := by
        rw [tbl_snoc, List.lookup_append, tbl_lookup_none hcid]
        simp [List.lookup]
      rw [hlook]
      have hreach_init : ∀ {u b : Nat}, b ∈ ids init → Reach G u b → u ∈ ids init := by
        intro u b hb hr
        rw [hG'] at hr
        exact ((reach_ext _ (hG' ▸ hw) hb).mp hr).mem_ids hwi hb
      obtain ⟨p1, hp1, hrp1⟩ : ∃ p ∈ c.parents, Reach G f1 p := by
        rcases (reach_cmd hw hcG f1).mp hr1 with e | h
        · rw [e] at hn21; exact absurd hr2 hn21
        · exact h
      obtain ⟨p2, hp2, hrp2⟩ : ∃ p ∈ c.parents, Reach G f2 p := by
        rcases (reach_cmd hw hcG f2).mp hr2 with e | h
        · rw [e] at hn12; exact absurd hr1 hn12
        · exact h
      match hcp : c.parents with
      | [] => rw [hcp] at hp1; simp at hp1
      | [p] =>
        rw [hcp] at hp1 hp2
        simp at hp1 hp2
        rw [hp1] at hrp1; rw [hp2] at hrp2
        have := ih _ hG' p (hcpar p (by simp [hcp])) f1 f2 hrp1 hrp2 hf1 hf2 hn12 hn21
        simp only [cStOf, hcp, this]
      | [l, r] =>
        have hh := heads_of_merge hw ha hcG hcp
        have hsp := refBraid_spec hw hh
        cases hbr : refBraid G [l, r] with
        | error e =>
          cases e with
          | parallelFinalize => simp only [cStOf, hcp, hbr]
          | malformed => rw [hbr] at hsp; exact hsp.elim
        | ok so =>
          obtain ⟨start, order⟩ := so
          obtain ⟨hsR, hall⟩ := ok_finalizes_below_start hw hroot hh hbr
          obtain ⟨b, hbm, hrb⟩ := (mem_ancSelfAll hw _ _).mp hsR
          have hsI : start ∈ ids init := hreach_init (hcpar b (hcp ▸ hbm)) hrb
          have h1R : f1 ∈ ancSelfAll G [l, r] := (mem_ancSelfAll hw _ _).mpr ⟨p1, hcp ▸ hp1, hrp1⟩
          have h2R : f2 ∈ ancSelfAll G [l, r] := (mem_ancSelfAll hw _ _).mpr ⟨p2, hcp ▸ hp2, hrp2⟩
          have := ih _ hG' start hsI f1 f2 (hall f1 h1R hf1) (hall f2 h2R hf2) hf1 hf2 hn12 hn21
          simp only [cStOf, hcp, hbr, this]
      | _ :: _ :: _ :: _ =>
        have := hw.arity hcG; rw [hcp] at this; simp at this

/-- a command with two incomparable finalizes among its ancestors-or-self stores `parallelFinalize` -/
theorem state_unclean {G : Graph} (hw : WF G) (hroot : Rooted G) (ha : MergeAnti G) {x f1 f2 : Nat}
    (hx : x ∈ ids G) (hr1 : Reach G f1 x) (hr2 : Reach G f2 x) (hf1 : isFinalize G f1 = true)
    (hf2 : isFinalize G f2 = true) (hn12 : ¬ Reach G f1 f2) (hn21 : ¬ Reach G f2 f1) :
    stateAt G x = .error .parallelFinalize := by
  rw [stateAt_eq_tbl, state_unclean_aux hw hroot ha G [] (by simp) x hx f1 f2 hr1 hr2 hf1 hf2 hn12 hn21]

/-- **The stored state of every command is the greedy evaluation of its ancestry** (stopping at a
lone strand and replaying on its stored state is memoisation only) -/
theorem states_sem {G : Graph} (hw : WF G) (hp : MergePrio G) (ha : MergeAnti G) (hb : MergeBraidOk G)
    {x : Nat} (hx : x ∈ ids G) : ∃ F, stateAt G x = .ok F ∧ Sem G (ancSelfAll G [x]) F := by
  obtain ⟨F, h1, h2⟩ := states_sem_aux hw hp ha hb G [] (by simp) x hx
  exact ⟨F, by rw [stateAt_eq_tbl, h1], h2⟩

/-- the fact state of a head set: the greedy evaluation of `anc*(heads)`, or the braid's error -/
theorem factsOf_cases {G : Graph} (hw : WF G) (hp : MergePrio G) (ha : MergeAnti G) (hb : MergeBraidOk G)
    {hs : List Nat} (hh : Heads G hs) :
    (∃ F, factsOf G hs = .ok F ∧ Sem G (ancSelfAll G hs) F) ∨
    (∃ e, factsOf G hs = .error e ∧ refBraid G hs = .error e) := by
  match hs, hh with
  | [], hh => exact absurd rfl hh.ne
  | [h], hh =>
    left
    obtain ⟨F, h1, h2⟩ := states_sem hw hp ha hb (hh.sub h (by simp))
    exact ⟨F, by simpa [factsOf] using h1, h2⟩
  | h1 :: h2 :: t, hh =>
    cases hbr : refBraid G (h1 :: h2 :: t) with
    | error e => right; exact ⟨e, by simp [factsOf, hbr], rfl⟩
    | ok so =>
      obtain ⟨start, order⟩ := so
      left
      obtain ⟨st, hist, hAst, _, _⟩ := refBraid_greedy hw hp hh hbr
      have hsR := ((hist.aIff start).mp (by rw [hAst]; simp)).1
      have hsG : start ∈ ids G := (region_ancSelfAll hw hh.sub).sub _ hsR
      obtain ⟨s, hs1, hs2⟩ := states_sem hw hp ha hb hsG
      exact ⟨applyOrder G order s, by simp [factsOf, hbr, hs1], sem_heads hw hp hh hbr hs2⟩

/-! ## transfer to an extended graph -/

theorem isMergeId_ext {g : Graph} (ext : Graph) {i : Nat} (hi : i ∈ ids g) :
    isMergeId (g ++ ext) i = isMergeId g i := by
  simp only [isMergeId, find?_ext ext hi]

theorem isFinalize_ext {g : Graph} (ext : Graph) {i : Nat} (hi : i ∈ ids g) :
    isFinalize (g ++ ext) i = isFinalize g i := by
  simp only [isFinalize, find?_ext ext hi]

theorem Cand.ext_iff {g ext : Graph} (hw' : WF (g ++ ext)) {R o : List Nat} (hR : ∀ x ∈ R, x ∈ ids g) (x : Nat) :
    Cand (g ++ ext) R o x ↔ Cand g R o x := by
  unfold Cand
  constructor
  · rintro ⟨h1, h2, h3, h4⟩
    refine ⟨h1, by rw [← isMergeId_ext ext (hR x h1)]; exact h2, h3, ?_⟩
    intro y hy hym hr hne
    exact h4 y hy (by rw [isMergeId_ext ext (hR y hy)]; exact hym) ((reach_ext ext hw' (hR y hy)).mpr hr) hne
  · rintro ⟨h1, h2, h3, h4⟩
    refine ⟨h1, by rw [isMergeId_ext ext (hR x h1)]; exact h2, h3, ?_⟩
    intro y hy hym hr hne
    exact h4 y hy (by rw [← isMergeId_ext ext (hR y hy)]; exact hym) ((reach_ext ext hw' (hR y hy)).mp hr) hne

theorem kLt.ext {g : Graph} (ext : Graph) {a b : Nat} (h : kLt g a b) : kLt (g ++ ext) a b := by
  obtain ⟨ca, cb, ha, hb, hk⟩ := h
  exact ⟨ca, cb, by rw [find?_ext ext (find?_mem_ids ha).1]; exact ha,
    by rw [find?_ext ext (find?_mem_ids hb).1]; exact hb, hk⟩

theorem Greedy.ext {g ext : Graph} (hw' : WF (g ++ ext)) {R o : List Nat} (hR : ∀ x ∈ R, x ∈ ids g)
    (h : Greedy g R o) : Greedy (g ++ ext) R o := by
  induction h with
  | nil => exact Greedy.nil
  | cons _ hc hmin ih =>
    refine Greedy.cons ih ((Cand.ext_iff hw' hR _).mpr hc) ?_
    intro d hd hne
    exact (hmin d ((Cand.ext_iff hw' hR _).mp hd) hne).ext ext

theorem Full.ext {g ext : Graph} (hw' : WF (g ++ ext)) {R o : List Nat} (hR : ∀ x ∈ R, x ∈ ids g)
    (h : Full g R o) : Full (g ++ ext) R o :=
  ⟨h.1.ext hw' hR, fun x hx hm => h.2 x hx (by rw [← isMergeId_ext ext (hR x hx)]; exact hm)⟩

theorem applyOrder_ext {g : Graph} (ext : Graph) : ∀ (L : List Nat) (s : Facts), (∀ i ∈ L, i ∈ ids g) →
    applyOrder (g ++ ext) L s = applyOrder g L s := by
  intro L
  induction L with
  | nil => intro s _; rfl
  | cons i t ih =>
    intro s hL
    have e1 : applyOrder (g ++ ext) (i :: t) s = applyOrder (g ++ ext) t (applyOrder (g ++ ext) [i] s) := by
      simp [applyOrder]
    have e2 : applyOrder g (i :: t) s = applyOrder g t (applyOrder g [i] s) := by
      simp [applyOrder]
    have e3 : applyOrder (g ++ ext) [i] s = applyOrder g [i] s := by
      simp only [applyOrder, List.foldl_cons, List.foldl_nil, find?_ext ext (hL i (by simp))]
    rw [e1, e2, e3, ih _ (fun j hj => hL j (by simp [hj]))]

theorem Antichain.ext {g ext : Graph} (hw : WF g) (hw' : WF (g ++ ext)) {hs : List Nat}
    (hsub : ∀ x ∈ hs, x ∈ ids g) (h : Antichain g hs) : Antichain (g ++ ext) hs := by
  intro a ha b hb
  cases hab : anc (g ++ ext) a b with
  | false => rfl
  | true =>
    obtain ⟨hne, hr⟩ := (anc_iff hw' a b).mp hab
    have := (anc_iff hw a b).mpr ⟨hne, (reach_ext ext hw' (hsub b hb)).mp hr⟩
    rw [h a ha b hb] at this; cases this

theorem Heads.ext {g ext : Graph} (hw : WF g) (hw' : WF (g ++ ext)) {hs : List Nat} (hh : Heads g hs) :
    Heads (g ++ ext) hs :=
  ⟨hh.ne, hh.nodup, fun x hx => by simp only [ids, List.map_append, List.mem_append]; exact Or.inl (hh.sub x hx),
    hh.anti.ext hw hw' hh.sub⟩

/-! ## the graph with the fold merges appended -/

/-- the merge command `collapse_heads` writes for the popped pair `(l, r)`, with id `i` -/
def mkMerge (i l r : Nat) : Cmd := { id := i, parents := [l, r], prio := Priority.merge, body := [] }

/-- the merge commands written by the pairwise fold of the queue `q` (the `foldPairs` discipline: pop
two, push the merge on the back), the `k`-th written merge getting the `k`-th id of `is` -/
def foldCmds : List Nat → List Nat → List Cmd
  | l :: r :: rest, i :: is => mkMerge i l r :: foldCmds (rest ++ [i]) is
  | _, _ => []

/-- the head that remains -/
def foldTop : List Nat → List Nat → Option Nat
  | [h], [] => some h
  | _ :: _ :: rest, i :: is => foldTop (rest ++ [i]) is
  | _, _ => none

theorem foldCmds_mem : ∀ (is q : List Nat) (c : Cmd), c ∈ foldCmds q is → ∃ i l r, c = mkMerge i l r ∧ i ∈ is := by
  intro is
  induction is with
  | nil => intro q c h; cases q with
    | nil => simp [foldCmds] at h
    | cons a t => cases t <;> simp [foldCmds] at h
  | cons i is ih =>
    intro q c h
    match q, h with
    | [], h => simp [foldCmds] at h
    | [_], h => simp [foldCmds] at h
    | l :: r :: rest, h =>
      simp only [foldCmds, List.mem_cons] at h
      rcases h with rfl | h
      · exact ⟨i, l, r, rfl, by simp⟩
      · obtain ⟨j, l', r', e, hj⟩ := ih _ c h
        exact ⟨j, l', r', e, by simp [hj]⟩

theorem ids_snoc (g : Graph) (c : Cmd) : ids (g ++ [c]) = ids g ++ [c.id] := by simp [ids]

theorem mem_ids_append_left {g ext : Graph} {x : Nat} (h : x ∈ ids g) : x ∈ ids (g ++ ext) := by
  simp only [ids, List.map_append, List.mem_append]; exact Or.inl h

theorem fold_ok : ∀ (is : List Nat) (g0 : Graph) (q : List Nat), WF g0 → MergeAnti g0 → Heads g0 q →
    is.Nodup → (∀ i ∈ is, i ∉ ids g0) → is.length + 1 = q.length →
    WF (g0 ++ foldCmds q is) ∧ MergeAnti (g0 ++ foldCmds q is) ∧
    (∃ t, foldTop q is = some t ∧ t ∈ ids (g0 ++ foldCmds q is) ∧
      (∀ h ∈ q, Reach (g0 ++ foldCmds q is) h t) ∧
      (∀ x ∈ ids g0, Reach (g0 ++ foldCmds q is) x t → ∃ h ∈ q, Reach g0 x h)) ∧
    (∀ c ∈ foldCmds q is, ∀ x ∈ ids g0, Reach (g0 ++ foldCmds q is) x c.id → ∃ h ∈ q, Reach g0 x h) := by
  intro is
  induction is with
  | nil =>
    intro g0 q hw ha hh _ _ hlen
    match q, hlen, hh with
    | [h], _, hh =>
      simp only [foldCmds, foldTop, List.append_nil]
      refine ⟨hw, ha, ⟨h, rfl, hh.sub h (by simp), ?_, ?_⟩, ?_⟩
      · intro h' hh'; simp at hh'; subst hh'; exact Reach.refl _
      · intro x _ hr; exact ⟨h, by simp, hr⟩
      · intro c hc; simp at hc
  | cons i is ih =>
    intro g0 q hw ha hh hnd hfresh hlen
    match q, hlen, hh with
    | [], hlen, _ => simp at hlen
    | [_], hlen, _ => simp at hlen
    | l :: r :: rest, hlen, hh =>
      have hl : l ∈ ids g0 := hh.sub l (by simp)
      have hr : r ∈ ids g0 := hh.sub r (by simp)
      have hi : i ∉ ids g0 := hfresh i (by simp)
      have hlr : l ≠ r := by
        have := hh.nodup; simp only [List.nodup_cons, List.mem_cons, not_or] at this; exact this.1.1
      have hw1 : WF (g0 ++ [mkMerge i l r]) := by
        refine WF.snoc hw hi ?_ (by simp [mkMerge]) (by simpa [mkMerge] using hlr)
        intro p hp; simp [mkMerge] at hp; rcases hp with rfl | rfl <;> assumption
      have hm1 : mkMerge i l r ∈ g0 ++ [mkMerge i l r] := by simp
      -- walking down one fold step
      have step_down : ∀ x ∈ ids g0, ∀ h1 ∈ rest ++ [i], Reach (g0 ++ [mkMerge i l r]) x h1 →
          ∃ h ∈ l :: r :: rest, Reach g0 x h := by
        intro x hx h1 hh1 hr1
        simp only [List.mem_append, List.mem_singleton] at hh1
        rcases hh1 with hh1 | e1
        · have hne : h1 ≠ (mkMerge i l r).id := by
            intro e; apply hi; rw [show i = h1 from e.symm]; exact hh.sub h1 (by simp [hh1])
          exact ⟨h1, by simp [hh1], hr1.snoc_ne hw1 hne⟩
        · rw [e1] at hr1
          rcases Reach.snoc_eq hw1 (c := mkMerge i l r) hr1 with e | ⟨p, hp, hrp⟩
          · exact absurd (show i ∈ ids g0 from (show x = i from e) ▸ hx) hi
          · simp [mkMerge] at hp
            rcases hp with rfl | rfl
            · exact ⟨p, by simp, hrp⟩
            · exact ⟨p, by simp, hrp⟩
      have ha1 : MergeAnti (g0 ++ [mkMerge i l r]) := by
        intro c hc a b hcp
        simp only [List.mem_append, List.mem_singleton] at hc
        rcases hc with hc | rfl
        · refine (ha c hc a b hcp).ext hw hw1 ?_
          intro x hx; exact hw.parents_mem hc (hcp ▸ hx)
        · simp [mkMerge] at hcp
          obtain ⟨rfl, rfl⟩ := hcp
          refine Antichain.ext hw hw1 (by intro x hx; simp at hx; rcases hx with rfl | rfl <;> assumption) ?_
          intro a ha' b hb'
          exact hh.anti a (by simp at ha'; rcases ha' with rfl | rfl <;> simp)
            b (by simp at hb'; rcases hb' with rfl | rfl <;> simp)
      have hh1 : Heads (g0 ++ [mkMerge i l r]) (rest ++ [i]) := by
        have hnd0 := hh.nodup
        simp only [List.nodup_cons, List.mem_cons, not_or] at hnd0
        refine ⟨by simp, ?_, ?_, ?_⟩
        · rw [List.nodup_append]
          refine ⟨hnd0.2.2, by simp, ?_⟩
          intro a ha' b hb' e
          simp at hb'; subst hb'; subst e
          exact hi (hh.sub a (by simp [ha']))
        · intro x hx
          simp only [List.mem_append, List.mem_singleton] at hx
          rw [ids_snoc]
          rcases hx with hx | rfl
          · exact List.mem_append_left _ (hh.sub x (by simp [hx]))
          · simp [mkMerge]
        · intro a ha' b hb'
          cases hab : anc (g0 ++ [mkMerge i l r]) a b with
          | false => rfl
          | true =>
            exfalso
            obtain ⟨hne, hrab⟩ := (anc_iff hw1 a b).mp hab
            simp only [List.mem_append, List.mem_singleton] at ha'
            rcases ha' with ha' | e3
            · obtain ⟨h, hhq, hrh⟩ := step_down a (hh.sub a (by simp [ha'])) b hb' hrab
              -- a ∈ rest reaches h ∈ q in g0: antichain gives a = h, but then h ∈ rest and ...
              have haq : a ∈ l :: r :: rest := by simp [ha']
              by_cases e : a = h
              · subst e
                -- then b is a with b ∈ rest (Reach a b in g1, b ≠ i), or b = i and a ∈ {l, r}
                simp only [List.mem_append, List.mem_singleton] at hb'
                rcases hb' with hb' | e2
                · have hbne : b ≠ (mkMerge i l r).id := by
                    intro e; apply hi; rw [show i = b from e.symm]; exact hh.sub b (by simp [hb'])
                  exact hh.anti.not_reach hw haq (by simp [hb']) hne (hrab.snoc_ne hw1 hbne)
                · rw [e2] at hrab
                  rcases Reach.snoc_eq hw1 (c := mkMerge i l r) hrab with e | ⟨p, hp, hrp⟩
                  · exact hne (e.trans e2.symm)
                  · have hpq : p ∈ l :: r :: rest := by
                      simp [mkMerge] at hp; rcases hp with rfl | rfl <;> simp
                    have hap : a ≠ p := by
                      intro e; subst e
                      simp [mkMerge] at hp
                      rcases hp with rfl | rfl
                      · exact hnd0.1.2 ha'
                      · exact hnd0.2.1 ha'
                    exact hh.anti.not_reach hw haq hpq hap hrp
              · exact hh.anti.not_reach hw haq hhq e hrh
            · -- the new merge has no descendants
              rw [e3] at hrab
              rcases hrab.cases_head with e | ⟨m, hpm, _⟩
              · exact hne (e3.trans e)
              · exact hw1.last_no_child (c := mkMerge i l r) m hpm
      have hnd' := List.nodup_cons.mp hnd
      have hfresh1 : ∀ j ∈ is, j ∉ ids (g0 ++ [mkMerge i l r]) := by
        intro j hj
        rw [ids_snoc]
        simp only [List.mem_append, List.mem_singleton, not_or]
        refine ⟨hfresh j (by simp [hj]), ?_⟩
        intro e; apply hnd'.1; rw [show i = j from e.symm]; exact hj
      have hlen1 : is.length + 1 = (rest ++ [i]).length := by simp at hlen ⊢; omega
      obtain ⟨hwF, haF, ⟨t, ht, htid, hup, hdown⟩, hmer⟩ := ih _ _ hw1 ha1 hh1 hnd'.2 hfresh1 hlen1
      have hG : g0 ++ foldCmds (l :: r :: rest) (i :: is) =
          (g0 ++ [mkMerge i l r]) ++ foldCmds (rest ++ [i]) is := by simp [foldCmds]
      rw [hG]
      have hpar : ∀ p, p = l ∨ p = r → Reach ((g0 ++ [mkMerge i l r]) ++ foldCmds (rest ++ [i]) is) p i := by
        intro p hp
        refine Reach.single ⟨mkMerge i l r, by simp, rfl, ?_⟩
        simp [mkMerge]; exact hp
      refine ⟨hwF, haF, ⟨t, by simpa [foldTop] using ht, htid, ?_, ?_⟩, ?_⟩
      · intro h hhq
        simp only [List.mem_cons] at hhq
        rcases hhq with rfl | rfl | hhq
        · exact (hpar h (Or.inl rfl)).trans (hup i (by simp))
        · exact (hpar h (Or.inr rfl)).trans (hup i (by simp))
        · exact hup h (by simp [hhq])
      · intro x hx hrt
        obtain ⟨h1, hh1q, hr1⟩ := hdown x (mem_ids_append_left hx) hrt
        exact step_down x hx h1 hh1q hr1
      · intro c hc x hx hrc
        simp only [foldCmds, List.mem_cons] at hc
        rcases hc with rfl | hc
        · have : Reach (g0 ++ [mkMerge i l r]) x i :=
            (reach_ext _ hwF (by rw [ids_snoc]; simp [mkMerge])).mp hrc
          exact step_down x hx i (by simp) this
        · obtain ⟨h1, hh1q, hr1⟩ := hmer c hc x (mem_ids_append_left hx) hrc
          exact step_down x hx h1 hh1q hr1

theorem mem_append_cases {g ext : Graph} {c : Cmd} (h : c ∈ g ++ ext) : c ∈ g ∨ c ∈ ext :=
  List.mem_append.mp h

theorem fold_prio {g0 : Graph} (q is : List Nat) (hp : MergePrio g0) : MergePrio (g0 ++ foldCmds q is) := by
  intro c hc
  rcases List.mem_append.mp hc with hc | hc
  · exact hp c hc
  · obtain ⟨i, l, r, rfl, _⟩ := foldCmds_mem is q c hc
    simp [mkMerge, isMerge]

theorem fold_rooted {g0 : Graph} (q is : List Nat) (hr : Rooted g0) : Rooted (g0 ++ foldCmds q is) := by
  constructor
  · intro c hc hinit
    rcases List.mem_append.mp hc with hc | hc
    · exact hr.initRoot c hc hinit
    · obtain ⟨i, l, r, rfl, _⟩ := foldCmds_mem is q c hc
      simp [mkMerge] at hinit
  · intro c hc d hd hcp hdp
    rcases List.mem_append.mp hc with hc | hc
    · rcases List.mem_append.mp hd with hd | hd
      · exact hr.oneRoot c hc d hd hcp hdp
      · obtain ⟨i, l, r, rfl, _⟩ := foldCmds_mem is q d hd
        simp [mkMerge] at hdp
    · obtain ⟨i, l, r, rfl, _⟩ := foldCmds_mem is q c hc
      simp [mkMerge] at hcp

/-- a graph all of whose merges were accepted by their own braid: the merge invariants in the
form used here -/
theorem mergesOk_props {g : Graph} (hm : MergesOk g) (hw : WF g) : MergeAnti g ∧ MergeBraidOk g := by
  induction hm with
  | nil => exact ⟨by intro c hc; simp at hc, by intro c hc; simp at hc⟩
  | @snoc g c _ hc ih =>
    obtain ⟨hwg, hcid, hcpar⟩ := hw.snoc_inv
    obtain ⟨ha, hb⟩ := ih hwg
    have key : ∀ d ∈ g ++ [c], ∀ l r, d.parents = [l, r] →
        Heads g [l, r] ∧ ∃ s o, refBraid g [l, r] = .ok (s, o) := by
      intro d hd l r hdp
      rcases List.mem_append.mp hd with hd | hd
      · exact ⟨heads_of_merge hwg ha hd hdp, hb d hd l r hdp⟩
      · simp at hd; subst hd
        obtain ⟨hanti, hok⟩ := hc l r hdp
        have hlr : l ≠ r := by
          have := hw.parents_nodup (c := d) (by simp); rw [hdp] at this; simpa using this
        exact ⟨⟨by simp, by simpa using hlr, fun y hy => hcpar y (hdp ▸ hy), hanti⟩, hok⟩
    constructor
    · intro d hd l r hdp
      obtain ⟨hh, _⟩ := key d hd l r hdp
      exact hh.anti.ext hwg hw hh.sub
    · intro d hd l r hdp
      obtain ⟨hh, s, o, hok⟩ := key d hd l r hdp
      exact ⟨s, o, by rw [refBraid_ext hwg hw hh]; exact hok⟩

/-- a successful braid on a reachable graph: the finalizes of the region are causally ordered -/
theorem ord_of_ok {g : Graph} (hm : MergesOk g) (hw : WF g) (hroot : Rooted g) {hs : List Nat} (hh : Heads g hs)
    {s : Nat} {o : List Nat} (hok : refBraid g hs = .ok (s, o)) :
    ∀ f1 ∈ ancSelfAll g hs, ∀ f2 ∈ ancSelfAll g hs, isFinalize g f1 = true → isFinalize g f2 = true →
      f1 = f2 ∨ Reach g f1 f2 ∨ Reach g f2 f1 := by
  intro f1 h1 f2 h2 hf1 hf2
  apply Classical.byContradiction
  intro hn
  simp only [not_or] at hn
  obtain ⟨hne, hn1, hn2⟩ := hn
  have : refBraid g hs = .error .parallelFinalize := by
    apply (pf_iff_reachable hm hw hroot hh).mpr
    refine ⟨f1, h1, f2, h2, hne, hf1, hf2, ?_, ?_⟩
    · cases ha : anc g f1 f2 with
      | false => rfl
      | true => exact absurd ((anc_iff hw _ _).mp ha).2 hn1
    · cases ha : anc g f2 f1 with
      | false => rfl
      | true => exact absurd ((anc_iff hw _ _).mp ha).2 hn2
  rw [this] at hok; cases hok

theorem factsOf_two {g : Graph} {H : List Nat} (h2 : 2 ≤ H.length) :
    factsOf g H = match refBraid g H with
      | .error e => .error e
      | .ok (start, order) => match stateAt g start with
        | .ok s => .ok (applyOrder g order s)
        | .error e => .error e := by
  match H, h2 with
  | _ :: _ :: _, _ => rfl

/-- the facts the collapse needs about the extended graph, from `fold_ok` -/
theorem fold_region {g : Graph} {H is : List Nat} (hw : WF g) (hh : Heads g H)
    (hw' : WF (g ++ foldCmds H is)) {t : Nat} (htid : t ∈ ids (g ++ foldCmds H is))
    (hup : ∀ h ∈ H, Reach (g ++ foldCmds H is) h t)
    (hdown : ∀ x ∈ ids g, Reach (g ++ foldCmds H is) x t → ∃ h ∈ H, Reach g x h)
    (x : Nat) (hx : isMergeId (g ++ foldCmds H is) x = false) :
    x ∈ ancSelfAll (g ++ foldCmds H is) [t] ↔ x ∈ ancSelfAll g H := by
  rw [mem_anc_single hw', mem_ancSelfAll hw]
  constructor
  · intro hr
    have hxid : x ∈ ids (g ++ foldCmds H is) := hr.mem_ids hw' htid
    obtain ⟨c, hc, rfl⟩ := mem_ids.mp hxid
    rcases List.mem_append.mp hc with hc0 | hc1
    · exact hdown c.id (mem_ids.mpr ⟨c, hc0, rfl⟩) hr
    · obtain ⟨i, l, r, rfl, _⟩ := foldCmds_mem is H c hc1
      rw [isMergeId_cmd hw' hc] at hx
      simp [mkMerge, isMerge] at hx
  · rintro ⟨b, hb, hr⟩
    exact ((reach_ext _ hw' (hh.sub b hb)).mpr hr).trans (hup b hb)

theorem fold_braidOk {g : Graph} {H is : List Nat} (hw : WF g) (ha : MergeAnti g) (hb : MergeBraidOk g)
    (hw' : WF (g ++ foldCmds H is)) (ha' : MergeAnti (g ++ foldCmds H is))
    (hmer : ∀ c ∈ foldCmds H is, ∀ x ∈ ids g, Reach (g ++ foldCmds H is) x c.id → ∃ h ∈ H, Reach g x h)
    (hord : ∀ f1 ∈ ancSelfAll g H, ∀ f2 ∈ ancSelfAll g H, isFinalize g f1 = true → isFinalize g f2 = true →
      f1 = f2 ∨ Reach g f1 f2 ∨ Reach g f2 f1) :
    MergeBraidOk (g ++ foldCmds H is) := by
  intro c hc l r hcp
  rcases List.mem_append.mp hc with hc0 | hc1
  · obtain ⟨s, o, hok⟩ := hb c hc0 l r hcp
    exact ⟨s, o, by rw [refBraid_ext hw hw' (heads_of_merge hw ha hc0 hcp)]; exact hok⟩
  · have hh' := heads_of_merge hw' ha' hc hcp
    apply ordered_finalizes_ok hw' hh'
    -- a finalize of the merge's region is a finalize of `anc*(H)` in `g`
    have hfin : ∀ f ∈ ancSelfAll (g ++ foldCmds H is) [l, r], isFinalize (g ++ foldCmds H is) f = true →
        f ∈ ids g ∧ f ∈ ancSelfAll g H ∧ isFinalize g f = true := by
      intro f hfR hf
      have hfg : f ∈ ids g := by
        simp only [isFinalize] at hf
        cases hfd : (g ++ foldCmds H is).find? f with
        | none => rw [hfd] at hf; cases hf
        | some d =>
          rw [hfd] at hf
          obtain ⟨hd, hdid⟩ := (find?_eq_some hw').mp hfd
          rcases List.mem_append.mp hd with hd0 | hd1
          · exact mem_ids.mpr ⟨d, hd0, hdid⟩
          · obtain ⟨i, l', r', rfl, _⟩ := foldCmds_mem is H d hd1
            simp [mkMerge] at hf
      refine ⟨hfg, ?_, by rw [← isFinalize_ext _ hfg]; exact hf⟩
      obtain ⟨b, hbm, hrb⟩ := (mem_ancSelfAll hw' _ _).mp hfR
      have hrc : Reach (g ++ foldCmds H is) f c.id :=
        Reach.tail hrb ((par_cmd hw' hc).mpr (hcp ▸ hbm))
      exact (mem_ancSelfAll hw _ _).mpr (hmer c hc1 f hfg hrc)
    intro f1 h1 f2 h2 hf1 hf2
    obtain ⟨hg1, hR1, hF1⟩ := hfin f1 h1 hf1
    obtain ⟨hg2, hR2, hF2⟩ := hfin f2 h2 hf2
    by_cases hne : f1 = f2
    · exact Or.inl hne
    · rcases hord f1 hR1 f2 hR2 hF1 hF2 with e | hr | hr
      · exact absurd e hne
      · exact Or.inr (Or.inl ((anc_iff hw' _ _).mpr ⟨hne, (reach_ext _ hw' hg2).mpr hr⟩))
      · exact Or.inr (Or.inr ((anc_iff hw' _ _).mpr ⟨Ne.symm hne, (reach_ext _ hw' hg1).mpr hr⟩))

/-- **The collapse preserves the fact state.**  `g`: a well-formed rooted graph whose merges were
accepted by their own braid and carry the `Merge` priority; `H`: a legal head set; `is`: pairwise
distinct ids not used in `g` (nothing is assumed about their order relative to other ids).  The
state stored at the head that remains after the pairwise fold wrote its merge commands equals the
fact state of the head set before — errors included. -/
theorem collapse_state_eq_factsOf {g : Graph} {H is : List Nat} (hw : WF g) (hroot : Rooted g)
    (hm : MergesOk g) (hp : MergePrio g) (hh : Heads g H) (hnd : is.Nodup)
    (hfresh : ∀ i ∈ is, i ∉ ids g) (hlen : is.length + 1 = H.length) {t : Nat}
    (ht : foldTop H is = some t) :
    stateAt (g ++ foldCmds H is) t = factsOf g H := by
  obtain ⟨ha, hb⟩ := mergesOk_props hm hw
  obtain ⟨hw', ha', ⟨t', ht', htid, hup, hdown⟩, hmer⟩ := fold_ok is g H hw ha hh hnd hfresh hlen
  rw [ht] at ht'
  cases ht'
  have hp' := fold_prio H is hp
  have hroot' := fold_rooted H is hroot
  have hsubR : ∀ x ∈ ancSelfAll g H, x ∈ ids g := (region_ancSelfAll hw hh.sub).sub
  by_cases h2 : 2 ≤ H.length
  · cases hbr : refBraid g H with
    | ok so =>
      obtain ⟨start, order⟩ := so
      have hord := ord_of_ok hm hw hroot hh hbr
      have hb' := fold_braidOk hw ha hb hw' ha' hmer hord
      obtain ⟨F', hF', L', hL', hFL'⟩ := states_sem hw' hp' ha' hb' htid
      rcases factsOf_cases hw hp ha hb hh with ⟨F, hF, L, hL, hFL⟩ | ⟨e, _, hre⟩
      · have hL2 : Full (g ++ foldCmds H is) (ancSelfAll (g ++ foldCmds H is) [t]) L :=
          (hL.ext hw' hsubR).congr_region
            (fun x hx => (fold_region hw hh hw' htid hup hdown x hx).symm)
        have e := Full.unique hL' hL2
        subst e
        rw [hF', hF, hFL', hFL, applyOrder_ext _ L' _ (fun i hi => hsubR i (hL.1.mem i hi).1)]
      · rw [hbr] at hre; cases hre
    | error e =>
      have hsp := refBraid_spec hw hh
      rw [hbr] at hsp
      cases e with
      | malformed => exact hsp.elim
      | parallelFinalize =>
        obtain ⟨f1, h1, f2, h2', _, hf1, hf2, hn12, hn21⟩ := hsp
        have hg1 := hsubR f1 h1
        have hg2 := hsubR f2 h2'
        have hr : ∀ f ∈ ancSelfAll g H, Reach (g ++ foldCmds H is) f t := by
          intro f hf
          obtain ⟨b, hbm, hrb⟩ := (mem_ancSelfAll hw _ _).mp hf
          exact ((reach_ext _ hw' (hh.sub b hbm)).mpr hrb).trans (hup b hbm)
        rw [factsOf_two h2, hbr]
        exact state_unclean hw' hroot' ha' htid (hr f1 h1) (hr f2 h2')
          (by rw [isFinalize_ext _ hg1]; exact hf1) (by rw [isFinalize_ext _ hg2]; exact hf2)
          (fun h => hn12 ((reach_ext _ hw' hg2).mp h)) (fun h => hn21 ((reach_ext _ hw' hg1).mp h))
  · -- a single head: nothing is written
    match H, hh, h2, hlen, ht with
    | [h], _, _, hlen, ht =>
      have : is = [] := by cases is with
        | nil => rfl
        | cons _ _ => simp at hlen
      subst this
      simp only [foldTop, Option.some.injEq] at ht
      subst ht
      simp [foldCmds, factsOf]
    | [], hh, _, _, _ => exact absurd rfl hh.ne
    | _ :: _ :: _, _, h2, _, _ => simp at h2

/-! ## stored states and fact states do not change when the graph grows -/

theorem refBraid_order_sub {g : Graph} (hw : WF g) {hs : List Nat} (hh : Heads g hs) {s : Nat} {o : List Nat}
    (h : refBraid g hs = .ok (s, o)) : s ∈ ids g ∧ ∀ i ∈ o, i ∈ ids g := by
  have hsp := refBraid_spec hw hh
  rw [h] at hsp
  obtain ⟨st, hi, hA, hout⟩ := hsp
  have hR := region_ancSelfAll hw hh.sub
  refine ⟨hR.sub s ((hi.aIff s).mp (by rw [hA]; simp)).1, ?_⟩
  intro i hio
  rw [← hout, hi.outEq] at hio
  exact hR.sub i (hi.pSub i (List.mem_filter.mp hio).1)

theorem cStOf_ext {g ext : Graph} (hw : WF g) (hw' : WF (g ++ ext)) (ha : MergeAnti g)
    (acc : List (Nat × Except BraidErr Facts)) {c : Cmd} (hc : c ∈ g) :
    cStOf (g ++ ext) acc c = cStOf g acc c := by
  unfold cStOf
  match hcp : c.parents with
  | [] => rfl
  | [p] => rfl
  | [l, r] =>
    have hh := heads_of_merge hw ha hc hcp
    simp only [refBraid_ext hw hw' hh]
    cases hbr : refBraid g [l, r] with
    | error e => rfl
    | ok so =>
      obtain ⟨start, order⟩ := so
      simp only
      cases acc.lookup start with
      | none => rfl
      | some v =>
        cases v with
        | error e => rfl
        | ok s => simp only [applyOrder_ext ext order s (refBraid_order_sub hw hh hbr).2]
  | _ :: _ :: _ :: _ => rfl

theorem tbl_ext {g ext : Graph} (hw : WF g) (hw' : WF (g ++ ext)) (ha : MergeAnti g) :
    ∀ pre : Graph, (∀ c ∈ pre, c ∈ g) → tbl (g ++ ext) pre = tbl g pre := by
  intro pre
  induction pre using snoc_ind with
  | h0 => intro _; rfl
  | h1 init c ih =>
    intro hsub
    rw [tbl_snoc, tbl_snoc, ih (fun d hd => hsub d (by simp [hd])), cStOf_ext hw hw' ha _ (hsub c (by simp))]

/-- **Appending commands does not change a stored state** -/
theorem stateAt_ext {g ext : Graph} (hw : WF g) (hw' : WF (g ++ ext)) (ha : MergeAnti g) {i : Nat}
    (hi : i ∈ ids g) : stateAt (g ++ ext) i = stateAt g i := by
  rw [stateAt_eq_tbl, stateAt_eq_tbl]
  cases hl : (tbl g g).lookup i with
  | none =>
    exfalso
    rw [List.lookup_eq_none_iff] at hl
    rw [← tbl_keys g g] at hi
    obtain ⟨p, hp, rfl⟩ := List.mem_map.mp hi
    have := hl p hp
    simp at this
  | some v =>
    have : (tbl (g ++ ext) (g ++ ext)).lookup i = some v := by
      apply tbl_lookup_mono
      rw [tbl_ext hw hw' ha g (fun _ h => h)]; exact hl
    rw [this]

/-- **Appending commands does not change the fact state of old heads** -/
theorem factsOf_ext {g ext : Graph} (hw : WF g) (hw' : WF (g ++ ext)) (ha : MergeAnti g) {hs : List Nat}
    (hh : Heads g hs) : factsOf (g ++ ext) hs = factsOf g hs := by
  match hs, hh with
  | [], hh => exact absurd rfl hh.ne
  | [h], hh => simpa [factsOf] using stateAt_ext hw hw' ha (hh.sub h (by simp))
  | h1 :: h2 :: t, hh =>
    simp only [factsOf, refBraid_ext hw hw' hh]
    cases hbr : refBraid g (h1 :: h2 :: t) with
    | error e => rfl
    | ok so =>
      obtain ⟨start, order⟩ := so
      obtain ⟨hs1, hs2⟩ := refBraid_order_sub hw hh hbr
      simp only [stateAt_ext hw hw' ha hs1]
      cases stateAt g start with
      | error e => rfl
      | ok s => simp only [applyOrder_ext ext order s hs2]

/-! ## the remaining head is the last merge written -/

theorem foldCmds_ne_nil : ∀ (is q : List Nat), is ≠ [] → is.length + 1 = q.length → foldCmds q is ≠ [] := by
  intro is q hne hlen
  match is, q, hne, hlen with
  | i :: is, l :: r :: rest, _, _ => simp [foldCmds]
  | _ :: _, [], _, hlen => simp at hlen
  | _ :: _, [_], _, hlen => simp at hlen

theorem foldTop_eq_last : ∀ (is q : List Nat), is ≠ [] → is.length + 1 = q.length →
    foldTop q is = (foldCmds q is).getLast?.map (·.id) := by
  intro is
  induction is with
  | nil => intro q h; exact absurd rfl h
  | cons i is ih =>
    intro q _ hlen
    match q, hlen with
    | [], hlen => simp at hlen
    | [_], hlen => simp at hlen
    | l :: r :: rest, hlen =>
      by_cases he : is = []
      · subst he
        have : rest = [] := by cases rest with
          | nil => rfl
          | cons _ _ => simp at hlen
        subst this
        simp [foldTop, foldCmds, mkMerge]
      · have hlen1 : is.length + 1 = (rest ++ [i]).length := by simp at hlen ⊢; omega
        have hne := foldCmds_ne_nil is (rest ++ [i]) he hlen1
        simp only [foldTop, foldCmds]
        rw [ih _ he hlen1, List.getLast?_cons_of_ne_nil hne]

end AranyaV.Spec
