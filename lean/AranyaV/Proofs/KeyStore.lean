import AranyaV.Model.KeyStore
/-!
Helper lemmas for C45: association lists, the CBOR codec round trip, the simulation relations
between the two store models and the abstract map, and the per-step simulation lemmas.
-/
namespace AranyaV.KeyStore

/-! ## association lists are maps -/

theorem aget_adel_same {α : Type} (l : List (Nat × α)) (i : Nat) : aget (adel l i) i = none := by
  induction l with
  | nil => rfl
  | cons p t ih =>
    obtain ⟨j, v⟩ := p
    by_cases h : j = i
    · simp [adel, h] at ih ⊢; exact ih
    · simp [adel, h, aget] at ih ⊢; exact ih

theorem aget_adel_ne {α : Type} (l : List (Nat × α)) {i j : Nat} (h : j ≠ i) :
    aget (adel l i) j = aget l j := by
  induction l with
  | nil => rfl
  | cons p t ih =>
    obtain ⟨x, v⟩ := p
    by_cases hx : x = i
    · have : x ≠ j := fun e => h (e ▸ hx)
      simp [adel, hx, aget] at ih ⊢
      simp [hx ▸ this, ih]
    · simp [adel, hx, aget] at ih ⊢
      rw [ih]

theorem aget_aput_same {α : Type} (l : List (Nat × α)) (i : Nat) (v : α) :
    aget (aput l i v) i = some v := by
  simp [aput, aget]

theorem aget_aput_ne {α : Type} (l : List (Nat × α)) {i j : Nat} (v : α) (h : j ≠ i) :
    aget (aput l i v) j = aget l j := by
  simp [aput, aget, Ne.symm h, aget_adel_ne l h]

/-! ## codec -/

theorem be_length (n w : Nat) : (be n w).length = w := by
  induction w with
  | zero => rfl
  | succ w ih => simp [be, ih]

theorem ofBe_be (n w : Nat) : ofBe (be n w) = n % 256 ^ w := by
  induction w with
  | zero => simp [be, ofBe, Nat.mod_one]
  | succ w ih =>
    have h8 : (2:Nat) ^ 8 = 256 := by decide
    simp only [be, ofBe, be_length, ih, UInt8.toNat_ofNat', h8]
    rw [Nat.pow_succ, Nat.mod_mul, Nat.mul_comm, Nat.add_comm]

/-- decoding reads back exactly the item that was encoded, whatever follows it -/
theorem dec_enc (k : UInt64) (rest : List UInt8) :
    dec (enc k ++ rest) = .ok (k, (enc k).length) := by
  have hk : k.toNat < 2 ^ 64 := UInt64.toNat_lt k
  have hw : ∀ w, 256 ^ w > k.toNat → UInt64.ofNat (ofBe (be k.toNat w)) = k := by
    intro w h
    rw [ofBe_be, Nat.mod_eq_of_lt h, UInt64.ofNat_toNat]
  unfold enc
  simp only
  split
  · rename_i h
    simp [dec, Nat.mod_eq_of_lt (show k.toNat < 2^8 by omega), h]
  · split
    · simp [dec, argWidth, be_length, hw 1 (by omega)]
    · split
      · simp [dec, argWidth, be_length, hw 2 (by omega)]
      · split
        · simp [dec, argWidth, be_length, hw 4 (by omega)]
        · simp [dec, argWidth, be_length, hw 8 (by omega)]

theorem dec_enc' (k : UInt64) : dec (enc k) = .ok (k, (enc k).length) := by
  simpa using dec_enc k []

theorem decKey_enc (k : UInt64) : decKey (enc k) = .key k := by
  simp [decKey, dec_enc']

theorem enc_ne_nil (k : UInt64) : enc k ≠ [] := by
  unfold enc; simp only; repeat' split
  all_goals simp

/-! ## `MemStore` ⊑ map -/

def MemRel (s : Mem) (t : Spec) : Prop :=
  (∀ i, aget s.keys i = (t.m i).map enc) ∧
  s.cur = t.cur.map (fun i => ⟨i, (t.m i).isSome⟩)

theorem memRel_init : MemRel {} {} := by
  simp [MemRel, aget]

theorem upd_same (m : Nat → Option UInt64) (i : Nat) (v : Option UInt64) : upd m i v i = v := by
  simp [upd]

theorem upd_ne (m : Nat → Option UInt64) {i j : Nat} (v : Option UInt64) (h : j ≠ i) :
    upd m i v j = m j := by
  simp [upd, h]

theorem memRel_put {s : Mem} {t : Spec} (h : MemRel s t) (i : Nat) (k : UInt64) :
    ∀ j, aget (aput s.keys i (enc k)) j = (upd t.m i (some k) j).map enc := by
  intro j
  by_cases hj : j = i
  · subst hj; simp [aget_aput_same, upd_same]
  · simp [aget_aput_ne _ _ hj, upd_ne _ _ hj, h.1 j]

theorem memRel_del {s : Mem} {t : Spec} (h : MemRel s t) (i : Nat) :
    ∀ j, aget (adel s.keys i) j = (upd t.m i none j).map enc := by
  intro j
  by_cases hj : j = i
  · subst hj; simp [aget_adel_same, upd_same]
  · simp [aget_adel_ne _ hj, upd_ne _ _ hj, h.1 j]

theorem mem_step_sim {s : Mem} {t : Spec} (h : MemRel s t) (op : Op) :
    (s.step op).1 = (t.step op).1 ∧ MemRel (s.step op).2 (t.step op).2 := by
  obtain ⟨hk, hc⟩ := h
  have h : MemRel s t := ⟨hk, hc⟩
  cases hcur : t.cur with
  | none =>
    simp only [hcur, Option.map_none] at hc
    cases op with
    | entry i =>
      cases hm : t.m i with
      | none => simp [Mem.step, Spec.step, hc, hcur, Mem.entry, hk i, hm, MemRel]; exact hk
      | some k => simp [Mem.step, Spec.step, hc, hcur, Mem.entry, hk i, hm, MemRel]; exact hk
    | sget i =>
      cases hm : t.m i with
      | none => simp [Mem.step, Spec.step, hc, hcur, hk i, hm, MemRel]; exact hk
      | some k => simp [Mem.step, Spec.step, hc, hcur, hk i, hm, MemRel, decKey_enc]; exact hk
    | tryInsert i k =>
      cases hm : t.m i with
      | none =>
        simp [Mem.step, Spec.step, hc, hcur, Mem.entry, hk i, hm, MemRel]
        exact memRel_put h i k
      | some k' => simp [Mem.step, Spec.step, hc, hcur, Mem.entry, hk i, hm, MemRel]; exact hk
    | sremove i =>
      cases hm : t.m i with
      | none => simp [Mem.step, Spec.step, hc, hcur, Mem.entry, hk i, hm, MemRel]; exact hk
      | some k =>
        simp [Mem.step, Spec.step, hc, hcur, Mem.entry, Mem.occGet, hk i, hm, MemRel, decKey_enc]
        exact memRel_del h i
    | reopen => simp [Mem.step, Spec.step, hc, hcur, MemRel]; exact hk
    | get => simp [Mem.step, Spec.step, hc, hcur, MemRel]; exact hk
    | insert k => simp [Mem.step, Spec.step, hc, hcur, MemRel]; exact hk
    | remove => simp [Mem.step, Spec.step, hc, hcur, MemRel]; exact hk
    | drop => simp [Mem.step, Spec.step, hc, hcur, MemRel]; exact hk
    | insertFail k => simp [Mem.step, Spec.step, hc, hcur, MemRel]; exact hk
    | tryInsertFail i k =>
      cases hm : t.m i with
      | none => simp [Mem.step, Spec.step, hc, hcur, Mem.entry, hk i, hm, MemRel]; exact hk
      | some k' => simp [Mem.step, Spec.step, hc, hcur, Mem.entry, hk i, hm, MemRel]; exact hk
  | some i =>
    simp only [hcur, Option.map_some] at hc
    cases hm : t.m i with
    | none =>
      simp only [hm, Option.isSome_none] at hc
      cases op with
      | insert k =>
        simp [Mem.step, Spec.step, hc, hcur, hm, MemRel]
        exact memRel_put h i k
      | entry j => simp [Mem.step, Spec.step, hc, hcur, hm, MemRel]; exact hk
      | get => simp [Mem.step, Spec.step, hc, hcur, hm, MemRel]; exact hk
      | remove => simp [Mem.step, Spec.step, hc, hcur, hm, MemRel]; exact hk
      | drop => simp [Mem.step, Spec.step, hc, hcur, hm, MemRel]; exact hk
      | sget j => simp [Mem.step, Spec.step, hc, hcur, hm, MemRel]; exact hk
      | tryInsert j k => simp [Mem.step, Spec.step, hc, hcur, hm, MemRel]; exact hk
      | sremove j => simp [Mem.step, Spec.step, hc, hcur, hm, MemRel]; exact hk
      | reopen => simp [Mem.step, Spec.step, hc, hcur, hm, MemRel]; exact hk
      | insertFail k => simp [Mem.step, Spec.step, hc, hcur, hm, MemRel]; exact hk
      | tryInsertFail j k => simp [Mem.step, Spec.step, hc, hcur, hm, MemRel]; exact hk
    | some k =>
      simp only [hm, Option.isSome_some] at hc
      cases op with
      | get => simp [Mem.step, Spec.step, hc, hcur, hm, MemRel, Mem.occGet, hk i, decKey_enc]; exact hk
      | remove =>
        simp [Mem.step, Spec.step, hc, hcur, hm, MemRel, Mem.occGet, hk i, decKey_enc]
        exact memRel_del h i
      | insert k => simp [Mem.step, Spec.step, hc, hcur, hm, MemRel]; exact hk
      | entry j => simp [Mem.step, Spec.step, hc, hcur, hm, MemRel]; exact hk
      | drop => simp [Mem.step, Spec.step, hc, hcur, hm, MemRel]; exact hk
      | sget j => simp [Mem.step, Spec.step, hc, hcur, hm, MemRel]; exact hk
      | tryInsert j k => simp [Mem.step, Spec.step, hc, hcur, hm, MemRel]; exact hk
      | sremove j => simp [Mem.step, Spec.step, hc, hcur, hm, MemRel]; exact hk
      | reopen => simp [Mem.step, Spec.step, hc, hcur, hm, MemRel]; exact hk
      | insertFail k => simp [Mem.step, Spec.step, hc, hcur, hm, MemRel]; exact hk
      | tryInsertFail j k => simp [Mem.step, Spec.step, hc, hcur, hm, MemRel]; exact hk

/-! ## `fs_keystore::Store` ⊑ map -/

def Bound (s : Fs) : Prop := ∀ i a, aget s.dir i = some a → a < s.inodes.length

def FsRel (s : Fs) (t : Spec) : Prop :=
  Bound s ∧
  ((t.cur = none ∧ s.cur = none ∧ ∀ j, s.file j = (t.m j).map enc) ∨
   (∃ i k a off, t.cur = some i ∧ t.m i = some k ∧ s.cur = some ⟨i, true, ⟨a, off⟩⟩ ∧
      aget s.dir i = some a ∧ ∀ j, s.file j = (t.m j).map enc) ∨
   (∃ i a, t.cur = some i ∧ t.m i = none ∧ s.cur = some ⟨i, false, ⟨a, 0⟩⟩ ∧
      aget s.dir i = some a ∧ s.inodes[a]? = some [] ∧
      ∀ j, j ≠ i → s.file j = (t.m j).map enc ∧ aget s.dir j ≠ some a))

theorem fsRel_init : FsRel {} {} := by
  simp [FsRel, Bound, aget, Fs.file]

theorem file_some_iff (s : Fs) (i : Nat) (c : List UInt8) :
    s.file i = some c ↔ ∃ a, aget s.dir i = some a ∧ s.inodes[a]? = some c := by
  simp [Fs.file, Option.bind_eq_some_iff]

theorem dir_none_of_file_none {s : Fs} (hb : Bound s) {i : Nat} (h : s.file i = none) :
    aget s.dir i = none := by
  cases ha : aget s.dir i with
  | none => rfl
  | some a =>
    have := hb i a ha
    simp [Fs.file, ha] at h
    omega

theorem file_unlink_same (s : Fs) (i : Nat) : (s.unlink i).file i = none := by
  simp [Fs.file, Fs.unlink, aget_adel_same]

theorem file_unlink_ne (s : Fs) {i j : Nat} (h : j ≠ i) : (s.unlink i).file j = s.file j := by
  simp [Fs.file, Fs.unlink, aget_adel_ne _ h]

theorem bound_unlink {s : Fs} (hb : Bound s) (i : Nat) : Bound (s.unlink i) := by
  intro j a h
  by_cases hj : j = i
  · subst hj; simp [Fs.unlink, aget_adel_same] at h
  · simp [Fs.unlink, aget_adel_ne _ hj] at h; exact hb j a h

/-- state after the exclusive create of `i` -/
def Fs.created (s : Fs) (i : Nat) : Fs :=
  { s with dir := aput s.dir i s.inodes.length, inodes := s.inodes ++ [[]] }

theorem entry_vac {s : Fs} {i : Nat} (h : aget s.dir i = none) :
    s.entry i = (.vac, { s.created i with cur := some ⟨i, false, ⟨s.inodes.length, 0⟩⟩ }) := by
  simp [Fs.entry, Fs.openat, Fs.createNew, h, Fs.created]

theorem entry_occ {s : Fs} {i a : Nat} (h : aget s.dir i = some a) :
    s.entry i = (.occ, { s with cur := some ⟨i, true, ⟨a, 0⟩⟩ }) := by
  simp [Fs.entry, Fs.openat, h]

theorem created_props {s : Fs} (hb : Bound s) (i : Nat) :
    Bound (s.created i) ∧ aget (s.created i).dir i = some s.inodes.length ∧
    (s.created i).inodes[s.inodes.length]? = some [] ∧
    ∀ j, j ≠ i → (s.created i).file j = s.file j ∧ aget (s.created i).dir j ≠ some s.inodes.length := by
  refine ⟨?_, by simp [Fs.created, aget_aput_same], by simp [Fs.created], ?_⟩
  · intro j a h
    by_cases hj : j = i
    · subst hj; simp [Fs.created, aget_aput_same] at h ⊢; omega
    · simp [Fs.created, aget_aput_ne _ _ hj] at h ⊢; have := hb j a h; omega
  · intro j hj
    simp only [Fs.created, Fs.file, aget_aput_ne _ _ hj]
    cases ha : aget s.dir j with
    | none => simp
    | some a =>
      have := hb j a ha
      simp [List.getElem?_append_left this]
      omega

/-- writing the key into the fresh empty inode of a vacant entry -/
theorem vacInsert_ok {s : Fs} {i a : Nat} (k : UInt64) (h0 : s.inodes[a]? = some []) :
    s.vacInsert i ⟨a, 0⟩ k = (.ok, { s with inodes := s.inodes.set a (enc k), cur := none }) := by
  simp [Fs.vacInsert, h0, Fs.write]

theorem occGet_rw {s : Fs} {a off : Nat} {k : UInt64} (h : s.inodes[a]? = some (enc k)) :
    (s.occGet true ⟨a, off⟩).1 = .key k := by
  simp [Fs.occGet, Fs.read, h, dec_enc']

theorem read_ino (s : Fs) (fd : Fd) : (s.read fd).2.ino = fd.ino := by
  unfold Fs.read
  repeat' split
  all_goals rfl

theorem occGet_ino (rw : Bool) (s : Fs) (fd : Fd) : (s.occGet rw fd).2.ino = fd.ino := by
  have key : ∀ fd0 : Fd, fd0.ino = fd.ino →
      (match s.read fd0 with
        | (Except.ok k, fd') => (Resp.key k, fd')
        | (Except.error _, fd') => (Resp.err, fd')).2.ino = fd.ino := by
    intro fd0 h0
    have := read_ino s fd0
    rcases hr : s.read fd0 with ⟨r, fd'⟩
    rw [hr] at this
    cases r <;> simp_all
  unfold Fs.occGet
  cases rw <;> exact key _ rfl

/-- an encoded key never starts with CBOR `null`/`undefined` -/
theorem enc_head (k : UInt64) : ∃ h t, enc k = h :: t ∧ isNull h = false := by
  unfold enc
  simp only
  split
  · rename_i hlt
    refine ⟨_, _, rfl, ?_⟩
    have h1 : (UInt8.ofNat k.toNat).toNat = k.toNat := by
      rw [UInt8.toNat_ofNat']; exact Nat.mod_eq_of_lt (by omega)
    have h2 : (UInt8.ofNat k.toNat) ≠ 0xf6 := fun e => by rw [e] at h1; simp at h1; omega
    have h3 : (UInt8.ofNat k.toNat) ≠ 0xf7 := fun e => by rw [e] at h1; simp at h1; omega
    simp only [isNull, Bool.or_eq_false_iff, beq_eq_false_iff_ne]
    exact ⟨h2, h3⟩
  · split
    · exact ⟨_, _, rfl, by decide⟩
    · split
      · exact ⟨_, _, rfl, by decide⟩
      · split
        · exact ⟨_, _, rfl, by decide⟩
        · exact ⟨_, _, rfl, by decide⟩

theorem storeGet_some {s : Fs} {i : Nat} {k : UInt64} (h : s.file i = some (enc k)) :
    s.storeGet i = .key k := by
  obtain ⟨a, ha, hc⟩ := (file_some_iff _ _ _).mp h
  obtain ⟨hd, tl, he, hn⟩ := enc_head k
  have hr : (s.read ⟨a, 0⟩).1 = .ok k := by simp [Fs.read, hc, dec_enc']
  simp only [Fs.storeGet, Fs.openat, ha, Option.map_some, hc]
  rw [he]
  simp only [hn, hr]
  simp

theorem storeGet_none {s : Fs} {i : Nat} (h : aget s.dir i = none) : s.storeGet i = .none := by
  simp [Fs.storeGet, Fs.openat, h]

/-- the file map after the insert through a vacant entry -/
theorem files_after_insert {s : Fs} {t : Spec} {i a : Nat} (k : UInt64) (hb : Bound s)
    (ha : aget s.dir i = some a)
    (hr : ∀ j, j ≠ i → s.file j = (t.m j).map enc ∧ aget s.dir j ≠ some a) :
    ∀ j, ({ s with inodes := s.inodes.set a (enc k), cur := none } : Fs).file j
      = (upd t.m i (some k) j).map enc := by
  intro j
  have hlt := hb i a ha
  by_cases hj : j = i
  · subst hj
    simp [Fs.file, ha, upd_same, hlt]
  · obtain ⟨h1, h2⟩ := hr j hj
    rw [upd_ne _ _ hj, ← h1]
    simp only [Fs.file]
    cases hd : aget s.dir j with
    | none => simp
    | some b =>
      have : a ≠ b := fun e => h2 (by rw [hd, e])
      simp [List.getElem?_set_ne this]

theorem files_after_remove {s : Fs} {t : Spec} {i : Nat}
    (hr : ∀ j, j ≠ i → s.file j = (t.m j).map enc) :
    ∀ j, (s.unlink i).file j = (upd t.m i none j).map enc := by
  intro j
  by_cases hj : j = i
  · subst hj; simp [file_unlink_same, upd_same]
  · rw [file_unlink_ne _ hj, upd_ne _ _ hj, hr j hj]


/-- a failed insert through a vacant entry: partial bytes reach the fresh inode, then the clean
entry is dropped and the name is unlinked -/
theorem vacInsertFail_err {s : Fs} {i a : Nat} (k : UInt64) (h0 : s.inodes[a]? = some []) :
    s.vacInsertFail i ⟨a, 0⟩ k =
      (.err, { dir := adel s.dir i, inodes := s.inodes.set a (partialEnc k), cur := none }) := by
  simp [Fs.vacInsertFail, h0, Fs.write, Fs.unlink]

theorem after_failed_insert {s : Fs} {t : Spec} {i a : Nat} (k : UInt64) (hb : Bound s)
    (hm : t.m i = none)
    (hr : ∀ j, j ≠ i → s.file j = (t.m j).map enc ∧ aget s.dir j ≠ some a) :
    Bound ({ dir := adel s.dir i, inodes := s.inodes.set a (partialEnc k), cur := none } : Fs) ∧
    ∀ j, ({ dir := adel s.dir i, inodes := s.inodes.set a (partialEnc k), cur := none } : Fs).file j
      = (t.m j).map enc := by
  constructor
  · intro j b h
    by_cases hj : j = i
    · subst hj; simp [aget_adel_same] at h
    · simp [aget_adel_ne _ hj] at h; simpa using hb j b h
  · intro j
    by_cases hj : j = i
    · subst hj; simp [Fs.file, aget_adel_same, hm]
    · obtain ⟨h1, h2⟩ := hr j hj
      rw [← h1]
      simp only [Fs.file, aget_adel_ne _ hj]
      cases hd : aget s.dir j with
      | none => simp
      | some b =>
        have : a ≠ b := fun e => h2 (by rw [hd, e])
        simp [List.getElem?_set_ne this]

theorem fsRel_A {s : Fs} {t : Spec} (hb : Bound s) (hc : t.cur = none) (hs : s.cur = none)
    (hf : ∀ j, s.file j = (t.m j).map enc) : FsRel s t := ⟨hb, Or.inl ⟨hc, hs, hf⟩⟩

theorem fs_step_sim {s : Fs} {t : Spec} (h : FsRel s t) (op : Op) :
    (s.step true op).1 = (t.step op).1 ∧ FsRel (s.step true op).2 (t.step op).2 := by
  obtain ⟨hb, hA | hB | hC⟩ := h
  · -- no live entry
    obtain ⟨hc, hs, hf⟩ := hA
    have hrel : FsRel s t := fsRel_A hb hc hs hf
    cases op with
    | get => simpa [Fs.step, Spec.step, hc, hs] using hrel
    | insert k => simpa [Fs.step, Spec.step, hc, hs] using hrel
    | remove => simpa [Fs.step, Spec.step, hc, hs] using hrel
    | drop => simpa [Fs.step, Spec.step, hc, hs] using hrel
    | reopen => simpa [Fs.step, Spec.step, hc, hs] using hrel
    | insertFail k => simpa [Fs.step, Spec.step, hc, hs] using hrel
    | tryInsertFail i k =>
      cases hm : t.m i with
      | none =>
        have hd := dir_none_of_file_none hb (by simpa [hm] using hf i)
        obtain ⟨c1, c2, c3, c4⟩ := created_props hb i
        have hins := vacInsertFail_err (s := { s.created i with cur := some ⟨i, false, ⟨s.inodes.length, 0⟩⟩ })
          (i := i) k c3
        have haf := after_failed_insert (s := { s.created i with cur := some ⟨i, false, ⟨s.inodes.length, 0⟩⟩ })
          (t := t) (a := s.inodes.length) k c1 hm
          (fun j hj => ⟨by rw [← hf j]; exact (c4 j hj).1, (c4 j hj).2⟩)
        simp only [Fs.step, Spec.step, hc, hs, hm, entry_vac hd, hins]
        exact ⟨trivial, haf.1, Or.inl ⟨hc, rfl, haf.2⟩⟩
      | some k' =>
        obtain ⟨a, ha, hc'⟩ := (file_some_iff _ _ _).mp (by simpa [hm] using hf i)
        have hss : ({ s with cur := none } : Fs) = s := by cases s; simp_all
        simpa [Fs.step, Spec.step, hc, hs, hm, entry_occ ha, hss] using hrel
    | sget i =>
      cases hm : t.m i with
      | none =>
        have := dir_none_of_file_none hb (by simpa [hm] using hf i)
        simpa [Fs.step, Spec.step, hc, hs, hm, storeGet_none this] using hrel
      | some k =>
        have := storeGet_some (k := k) (by simpa [hm] using hf i)
        simpa [Fs.step, Spec.step, hc, hs, hm, this] using hrel
    | entry i =>
      cases hm : t.m i with
      | none =>
        have hd := dir_none_of_file_none hb (by simpa [hm] using hf i)
        obtain ⟨c1, c2, c3, c4⟩ := created_props hb i
        simp only [Fs.step, Spec.step, hc, hs, hm, entry_vac hd, Option.isSome_none]
        refine ⟨rfl, c1, Or.inr (Or.inr ⟨i, s.inodes.length, rfl, hm, rfl, c2, c3, ?_⟩)⟩
        intro j hj
        exact ⟨by rw [← hf j]; exact (c4 j hj).1, (c4 j hj).2⟩
      | some k =>
        obtain ⟨a, ha, hc'⟩ := (file_some_iff _ _ _).mp (by simpa [hm] using hf i)
        simp only [Fs.step, Spec.step, hc, hs, hm, entry_occ ha, Option.isSome_some]
        exact ⟨rfl, hb, Or.inr (Or.inl ⟨i, k, a, 0, rfl, hm, rfl, ha, hf⟩)⟩
    | tryInsert i k =>
      cases hm : t.m i with
      | none =>
        have hd := dir_none_of_file_none hb (by simpa [hm] using hf i)
        obtain ⟨c1, c2, c3, c4⟩ := created_props hb i
        have hins := vacInsert_ok (s := { s.created i with cur := some ⟨i, false, ⟨s.inodes.length, 0⟩⟩ })
          (i := i) k c3
        simp only [Fs.step, Spec.step, hc, hs, hm, entry_vac hd, hins]
        refine ⟨trivial, ?_, Or.inl ⟨rfl, rfl, ?_⟩⟩
        · intro j a h; simpa using c1 j a h
        · apply files_after_insert (s := { s.created i with cur := some ⟨i, false, ⟨s.inodes.length, 0⟩⟩ }) k c1 c2
          intro j hj
          exact ⟨by rw [← hf j]; exact (c4 j hj).1, (c4 j hj).2⟩
      | some k' =>
        obtain ⟨a, ha, hc'⟩ := (file_some_iff _ _ _).mp (by simpa [hm] using hf i)
        have hss : ({ s with cur := none } : Fs) = s := by cases s; simp_all
        simpa [Fs.step, Spec.step, hc, hs, hm, entry_occ ha, hss] using hrel
    | sremove i =>
      cases hm : t.m i with
      | none =>
        have hd := dir_none_of_file_none hb (by simpa [hm] using hf i)
        obtain ⟨c1, c2, c3, c4⟩ := created_props hb i
        simp only [Fs.step, Spec.step, hc, hs, hm, entry_vac hd]
        refine ⟨trivial, bound_unlink c1 i, Or.inl ⟨hc, rfl, ?_⟩⟩
        intro j
        by_cases hj : j = i
        · subst hj; rw [hm]; exact file_unlink_same _ _
        · have := file_unlink_ne ({ s.created i with cur := some ⟨i, false, ⟨s.inodes.length, 0⟩⟩ }) hj
          rw [← hf j, ← (c4 j hj).1]; exact this
      | some k =>
        obtain ⟨a, ha, hc'⟩ := (file_some_iff _ _ _).mp (by simpa [hm] using hf i)
        have hg : ((Fs.unlink { s with cur := some ⟨i, true, ⟨a, 0⟩⟩ } i).occGet true ⟨a, 0⟩).1 = .key k :=
          occGet_rw (by simpa [Fs.unlink] using hc')
        simp only [Fs.step, Spec.step, hc, hs, hm, entry_occ ha, Fs.occRemove, hg, ha]
        refine ⟨trivial, bound_unlink hb i, Or.inl ⟨rfl, rfl, ?_⟩⟩
        exact files_after_remove (s := s) (fun j _ => hf j)
  · -- live occupied entry
    obtain ⟨i, k, a, off, hc, hm, hs, ha, hf⟩ := hB
    have hrel : FsRel s t := ⟨hb, Or.inr (Or.inl ⟨i, k, a, off, hc, hm, hs, ha, hf⟩)⟩
    have hino : s.inodes[a]? = some (enc k) := by
      have := hf i
      simpa [Fs.file, ha, hm] using this
    cases op with
    | entry j => simpa [Fs.step, Spec.step, hc, hs] using hrel
    | insert k' => simpa [Fs.step, Spec.step, hc, hs, hm] using hrel
    | sget j => simpa [Fs.step, Spec.step, hc, hs] using hrel
    | tryInsert j k' => simpa [Fs.step, Spec.step, hc, hs] using hrel
    | sremove j => simpa [Fs.step, Spec.step, hc, hs] using hrel
    | reopen => simpa [Fs.step, Spec.step, hc, hs] using hrel
    | insertFail k' => simpa [Fs.step, Spec.step, hc, hs, hm] using hrel
    | tryInsertFail j k' => simpa [Fs.step, Spec.step, hc, hs] using hrel
    | get =>
      have hg := occGet_rw (s := s) (off := off) hino
      simp only [Fs.step, Spec.step, hc, hs, hm]
      have hi := occGet_ino true s ⟨a, off⟩
      refine ⟨hg, hb, Or.inr (Or.inl ⟨i, k, a, (s.occGet true ⟨a, off⟩).2.off, hc, hm, ?_, ha, hf⟩)⟩
      show some _ = some _
      congr 2
      cases hfd : (s.occGet true ⟨a, off⟩).2 with
      | mk x y => rw [hfd] at hi; simp at hi; simp [hi]
    | remove =>
      have hg : ((s.unlink i).occGet true ⟨a, off⟩).1 = .key k :=
        occGet_rw (by simpa [Fs.unlink] using hino)
      simp only [Fs.step, Spec.step, hc, hs, hm, Fs.occRemove, ha, hg]
      refine ⟨trivial, bound_unlink hb i, Or.inl ⟨rfl, rfl, ?_⟩⟩
      exact files_after_remove (s := s) (fun j _ => hf j)
    | drop =>
      simp only [Fs.step, Spec.step, hc, hs]
      exact ⟨trivial, hb, Or.inl ⟨rfl, rfl, hf⟩⟩
  · -- live vacant entry
    obtain ⟨i, a, hc, hm, hs, ha, h0, hr⟩ := hC
    have hrel : FsRel s t := ⟨hb, Or.inr (Or.inr ⟨i, a, hc, hm, hs, ha, h0, hr⟩)⟩
    cases op with
    | entry j => simpa [Fs.step, Spec.step, hc, hs] using hrel
    | get => simpa [Fs.step, Spec.step, hc, hs, hm] using hrel
    | remove => simpa [Fs.step, Spec.step, hc, hs, hm] using hrel
    | sget j => simpa [Fs.step, Spec.step, hc, hs] using hrel
    | tryInsert j k' => simpa [Fs.step, Spec.step, hc, hs] using hrel
    | sremove j => simpa [Fs.step, Spec.step, hc, hs] using hrel
    | reopen => simpa [Fs.step, Spec.step, hc, hs] using hrel
    | tryInsertFail j k' => simpa [Fs.step, Spec.step, hc, hs] using hrel
    | insertFail k =>
      have haf := after_failed_insert (t := t) k hb hm hr
      simp only [Fs.step, Spec.step, hc, hs, hm, vacInsertFail_err k h0]
      exact ⟨trivial, haf.1, Or.inl ⟨rfl, rfl, haf.2⟩⟩
    | insert k =>
      simp only [Fs.step, Spec.step, hc, hs, hm, vacInsert_ok k h0]
      refine ⟨trivial, ?_, Or.inl ⟨rfl, rfl, files_after_insert k hb ha hr⟩⟩
      intro j b h; simpa using hb j b h
    | drop =>
      simp only [Fs.step, Spec.step, hc, hs]
      refine ⟨trivial, bound_unlink hb i, Or.inl ⟨rfl, rfl, ?_⟩⟩
      intro j
      by_cases hj : j = i
      · subst hj; rw [hm]; exact file_unlink_same _ _
      · rw [← (hr j hj).1]; exact file_unlink_ne _ hj


/-! ## the directory listing the driver prints is the file map -/

theorem aget_insSorted {α : Type} (p : Nat × α) (l : List (Nat × α)) (j : Nat) :
    aget (insSorted p l) j = if p.1 = j then some p.2 else aget l j := by
  induction l with
  | nil => simp [insSorted, aget]
  | cons q t ih =>
    obtain ⟨pn, pv⟩ := p
    obtain ⟨qn, qv⟩ := q
    simp only [insSorted]
    split
    · simp [aget]
    · rename_i hle
      simp only [aget, ih]
      by_cases h1 : qn = j
      · have : ¬ pn = j := by omega
        simp [h1, this]
      · simp [h1]

theorem aget_sortByName {α : Type} (l : List (Nat × α)) (j : Nat) :
    aget (sortByName l) j = aget l j := by
  induction l with
  | nil => rfl
  | cons p t ih =>
    obtain ⟨pn, pv⟩ := p
    simp only [sortByName, List.foldr_cons] at ih ⊢
    rw [aget_insSorted, ih]
    simp [aget]

theorem aget_listing {s : Fs} (hb : Bound s) (j : Nat) : aget s.listing j = s.file j := by
  unfold Fs.listing Fs.file
  rw [aget_sortByName]
  have hbj : ∀ a, aget s.dir j = some a → a < s.inodes.length := hb j
  generalize s.dir = d at hbj
  induction d with
  | nil => rfl
  | cons p t ih =>
    obtain ⟨pn, pa⟩ := p
    by_cases h : pn = j
    · have hlt : pa < s.inodes.length := hbj pa (by simp [aget, h])
      simp [aget, h, List.getElem?_eq_getElem hlt]
    · have ih' := ih (fun a ha => hbj a (by simpa [aget, h] using ha))
      simp only [List.filterMap_cons, aget, h, if_false]
      cases s.inodes[pa]? with
      | none => simpa using ih'
      | some c => simpa [aget, h] using ih'

end AranyaV.KeyStore
