import AranyaV.Model.Segments
import AranyaV.Props.C21
/-! Helper definitions and lemmas for the segment-store model (C11): the ancestor relation of the
abstract graph, well-formed stores, and the basic facts the search proofs use. -/
namespace AranyaV.Segments
open AranyaV.Queue

/-- ancestor-or-self in the abstract graph of a store -/
inductive AncS (s : Store) : Loc → Loc → Prop
  | refl (a : Loc) : AncS s a a
  | step {a m b : Loc} : AncS s a m → m ∈ s.parents b → AncS s a b

/-- proper ancestor -/
def Anc (s : Store) (a b : Loc) : Prop := ∃ m, m ∈ s.parents b ∧ AncS s a m

/-- A skip entry `k` of segment `g` is sound: it is a command location, a proper ancestor of the
segment's first command (i.e. an ancestor-or-self of one of its priors), and it never "jumps into
a branch": every ancestor of the segment at or below `k`'s max cut is an ancestor-or-self of `k`. -/
def SkipOK (s : Store) (g : Seg) (k : Loc) : Prop :=
  s.valid k = true ∧ Anc s k g.firstLoc ∧
    ∀ x, Anc s x g.firstLoc → x.mc ≤ k.mc → AncS s x k

/-- every skip entry of every segment is sound -/
def SkipsOK (s : Store) : Prop :=
  ∀ i g, s.seg? i = some g → ∀ k ∈ g.skips, SkipOK s g k

/-- priors point at command locations with a smaller max cut -/
def PriorsOK (s : Store) : Prop :=
  ∀ i g, s.seg? i = some g → ∀ p ∈ g.prior.toList, s.valid p = true ∧ p.mc < g.first

structure WF (s : Store) : Prop where
  priors : PriorsOK s
  skips : SkipsOK s

/-- two command locations holding the same id at the same max cut are the same location -/
def UniqueAddr (s : Store) : Prop :=
  ∀ x y c, s.cmdAt x = some c → s.cmdAt y = some c → x.mc = y.mc → x = y

/-! ### segments and locations -/

theorem seg?_idx {s : Store} {i : Nat} {g : Seg} (h : s.seg? i = some g) : g.idx = i := by
  have := List.find?_some h
  simpa using this

theorem seg?_mem {s : Store} {i : Nat} {g : Seg} (h : s.seg? i = some g) : g ∈ s.segs :=
  List.mem_of_find?_eq_some h

theorem getCommand_isSome {g : Seg} {l : Loc} :
    (g.getCommand l).isSome = true ↔ g.idx = l.seg ∧ g.first ≤ l.mc ∧ l.mc < g.first + g.ids.length := by
  unfold Seg.getCommand
  by_cases h : g.idx = l.seg ∧ g.first ≤ l.mc
  · rw [if_pos h]
    have : l.mc - g.first < g.ids.length ↔ l.mc < g.first + g.ids.length := by omega
    simp [h.1, h.2, this]
  · rw [if_neg h]
    simp only [Option.isSome_none, Bool.false_eq_true, false_iff]
    intro ⟨a, b, _⟩; exact h ⟨a, b⟩

theorem valid_iff {s : Store} {l : Loc} :
    s.valid l = true ↔ ∃ g, s.seg? l.seg = some g ∧ g.first ≤ l.mc ∧ l.mc < g.first + g.ids.length := by
  unfold Store.valid Store.cmdAt
  cases h : s.seg? l.seg with
  | none => simp
  | some g =>
    simp only [Option.some.injEq, exists_eq_left']
    rw [getCommand_isSome]
    have := seg?_idx h
    constructor
    · intro ⟨_, a, b⟩; exact ⟨a, b⟩
    · intro ⟨a, b⟩; exact ⟨this, a, b⟩

theorem valid_of_seg {s : Store} {l : Loc} {g : Seg} (h : s.seg? l.seg = some g)
    (h1 : g.first ≤ l.mc) (h2 : l.mc < g.first + g.ids.length) : s.valid l = true :=
  valid_iff.mpr ⟨g, h, h1, h2⟩

theorem parents_inner {s : Store} {l : Loc} {g : Seg} (h : s.seg? l.seg = some g)
    (h1 : g.first < l.mc) (h2 : l.mc < g.first + g.ids.length) :
    s.parents l = [⟨l.mc - 1, l.seg⟩] := by
  unfold Store.parents
  rw [h]
  have : (g.getCommand l).isSome = true := getCommand_isSome.mpr ⟨seg?_idx h, by omega, h2⟩
  simp [this, h1]

theorem parents_first {s : Store} {l : Loc} {g : Seg} (h : s.seg? l.seg = some g)
    (h1 : l.mc = g.first) (h2 : 0 < g.ids.length) :
    s.parents l = g.prior.toList := by
  unfold Store.parents
  rw [h]
  have : (g.getCommand l).isSome = true := getCommand_isSome.mpr ⟨seg?_idx h, by omega, by omega⟩
  simp [this, h1]

/-- a parent edge, classified -/
theorem mem_parents {s : Store} {m b : Loc} (h : m ∈ s.parents b) :
    ∃ g, s.seg? b.seg = some g ∧ g.first ≤ b.mc ∧ b.mc < g.first + g.ids.length ∧
      ((g.first < b.mc ∧ m = ⟨b.mc - 1, b.seg⟩) ∨ (b.mc = g.first ∧ m ∈ g.prior.toList)) := by
  unfold Store.parents at h
  cases hg : s.seg? b.seg with
  | none => simp [hg] at h
  | some g =>
    rw [hg] at h
    by_cases hc : (g.getCommand b).isSome = true
    · obtain ⟨_, h1, h2⟩ := getCommand_isSome.mp hc
      simp only [hc, if_true] at h
      refine ⟨g, rfl, h1, h2, ?_⟩
      by_cases hf : g.first < b.mc
      · simp only [hf, if_true, List.mem_singleton] at h
        exact Or.inl ⟨hf, h⟩
      · simp only [hf, if_false] at h
        exact Or.inr ⟨by omega, h⟩
    · simp [hc] at h

theorem parent_valid {s : Store} (hp : PriorsOK s) {m b : Loc} (h : m ∈ s.parents b) :
    s.valid m = true ∧ s.valid b = true ∧ m.mc < b.mc := by
  obtain ⟨g, hg, h1, h2, h3⟩ := mem_parents h
  refine ⟨?_, valid_of_seg hg h1 h2, ?_⟩
  · rcases h3 with ⟨hf, rfl⟩ | ⟨_, hm⟩
    · exact valid_of_seg (l := ⟨b.mc - 1, b.seg⟩) hg (by simp; omega) (by simp; omega)
    · exact (hp _ g hg m hm).1
  · rcases h3 with ⟨hf, rfl⟩ | ⟨he, hm⟩
    · simp; omega
    · have := (hp _ g hg m hm).2; omega

/-! ### ancestors -/

theorem AncS.trans {s : Store} {a b c : Loc} (h1 : AncS s a b) (h2 : AncS s b c) : AncS s a c := by
  induction h2 with
  | refl => exact h1
  | step _ hm ih => exact AncS.step ih hm

theorem Anc.ancS {s : Store} {a b : Loc} (h : Anc s a b) : AncS s a b := by
  obtain ⟨m, hm, h⟩ := h
  exact AncS.step h hm

theorem AncS.eq_or_anc {s : Store} {a b : Loc} (h : AncS s a b) : a = b ∨ Anc s a b := by
  cases h with
  | refl => exact Or.inl rfl
  | step h hm => exact Or.inr ⟨_, hm, h⟩

theorem Anc.trans_left {s : Store} {a b c : Loc} (h1 : AncS s a b) (h2 : Anc s b c) : Anc s a c := by
  obtain ⟨m, hm, h⟩ := h2
  exact ⟨m, hm, h1.trans h⟩

theorem AncS.mc_le {s : Store} (hp : PriorsOK s) {a b : Loc} (h : AncS s a b) : a.mc ≤ b.mc := by
  induction h with
  | refl => exact Nat.le_refl _
  | step _ hm ih => have := (parent_valid hp hm).2.2; omega

theorem Anc.mc_lt {s : Store} (hp : PriorsOK s) {a b : Loc} (h : Anc s a b) : a.mc < b.mc := by
  obtain ⟨m, hm, h⟩ := h
  have := (parent_valid hp hm).2.2
  have := h.mc_le hp
  omega

theorem AncS.valid {s : Store} (hp : PriorsOK s) {a b : Loc} (h : AncS s a b)
    (hb : s.valid b = true) : s.valid a = true := by
  induction h with
  | refl => exact hb
  | step _ hm ih => exact ih (parent_valid hp hm).1

theorem Anc.valid {s : Store} (hp : PriorsOK s) {a b : Loc} (h : Anc s a b) : s.valid a = true := by
  obtain ⟨m, hm, h⟩ := h
  exact h.valid hp (parent_valid hp hm).1

/-- inside a segment, lower max cut means ancestor-or-self -/
theorem chain {s : Store} {i : Nat} {g : Seg} (hg : s.seg? i = some g) (a : Nat) (h1 : g.first ≤ a) :
    ∀ b, a ≤ b → b < g.first + g.ids.length → AncS s ⟨a, i⟩ ⟨b, i⟩ := by
  intro b
  induction b with
  | zero => intro h _; have : a = 0 := by omega
            subst this; exact AncS.refl _
  | succ b ih =>
    intro hab hb
    by_cases he : a = b + 1
    · subst he; exact AncS.refl _
    · have hp := parents_inner (s := s) (l := ⟨b + 1, i⟩) hg (by simp; omega) hb
      refine AncS.step (ih (by omega) (by omega)) ?_
      rw [hp]; simp

theorem chain_loc {s : Store} {x e : Loc} (hx : s.valid x = true) (he : s.valid e = true)
    (hs : x.seg = e.seg) (hm : x.mc ≤ e.mc) : AncS s x e := by
  obtain ⟨g, hg, h1, _⟩ := valid_iff.mp hx
  obtain ⟨g', hg', _, h2'⟩ := valid_iff.mp he
  rw [hs] at hg
  rw [hg] at hg'; cases hg'
  have := chain hg x.mc h1 e.mc hm h2'
  cases x; cases e; simp at hs; subst hs; exact this

/-- an ancestor-or-self of a command of segment `g` is in the segment (at or below it) or an
ancestor-or-self of one of the segment's priors -/
theorem descent {s : Store} {x b : Loc} (h : AncS s x b) :
    ∀ g, s.seg? b.seg = some g → g.first ≤ b.mc →
      (x.seg = b.seg ∧ g.first ≤ x.mc ∧ x.mc ≤ b.mc) ∨ (∃ p ∈ g.prior.toList, AncS s x p) := by
  induction h with
  | refl => intro g _ h1; exact Or.inl ⟨rfl, h1, Nat.le_refl _⟩
  | step hxm hm ih =>
    rename_i m b
    intro g hg _
    obtain ⟨g', hg', h1, h2, h3⟩ := mem_parents hm
    rw [hg] at hg'; cases hg'
    rcases h3 with ⟨hf, rfl⟩ | ⟨he, hmp⟩
    · rcases ih g hg (by simp; omega) with ⟨e1, e2, e3⟩ | hr
      · simp at e1 e3
        exact Or.inl ⟨e1, e2, by omega⟩
      · exact Or.inr hr
    · exact Or.inr ⟨m, hmp, hxm⟩

end AranyaV.Segments
