import AranyaV.Model.FactKey
/-!
Helper lemmas for the fact-key encoding (C29): the byte-string order, big-endian encoding is
strictly monotone and injective, the sign-bit flip turns `i64` order into `u64` order.
-/
namespace AranyaV.FactKey

/-! ## `blt` is a strict total order -/

theorem blt_irrefl (a : Bytes) : blt a a = false := by
  induction a with
  | nil => rfl
  | cons x xs ih => simp [blt, ih]

theorem blt_nil_right (a : Bytes) : blt a [] = false := by cases a <;> rfl

theorem u8_lt_irrefl (x : UInt8) : ¬ x < x := by
  rw [UInt8.lt_iff_toNat_lt]; omega

theorem u8_lt_trans {x y z : UInt8} (h1 : x < y) (h2 : y < z) : x < z := by
  rw [UInt8.lt_iff_toNat_lt] at *; omega

theorem u8_lt_asymm {x y : UInt8} (h1 : x < y) : ¬ y < x := by
  rw [UInt8.lt_iff_toNat_lt] at *; omega

theorem u8_trichotomy (x y : UInt8) : x < y ∨ x = y ∨ y < x := by
  rcases Nat.lt_trichotomy x.toNat y.toNat with h | h | h
  · exact Or.inl (UInt8.lt_iff_toNat_lt.mpr h)
  · exact Or.inr (Or.inl (UInt8.toNat_inj.mp h))
  · exact Or.inr (Or.inr (UInt8.lt_iff_toNat_lt.mpr h))

theorem blt_trans : ∀ {a b c : Bytes}, blt a b = true → blt b c = true → blt a c = true
  | [], [], _, h, _ => by simp [blt] at h
  | [], _ :: _, [], _, h => by simp [blt] at h
  | [], _ :: _, _ :: _, _, _ => rfl
  | _ :: _, [], _, h, _ => by simp [blt] at h
  | _ :: _, _ :: _, [], _, h => by simp [blt] at h
  | x :: xs, y :: ys, z :: zs, h1, h2 => by
    simp only [blt, Bool.or_eq_true, decide_eq_true_eq, Bool.and_eq_true, beq_iff_eq] at *
    rcases h1 with h1 | ⟨rfl, h1⟩
    · rcases h2 with h2 | ⟨rfl, _⟩
      · exact Or.inl (u8_lt_trans h1 h2)
      · exact Or.inl h1
    · rcases h2 with h2 | ⟨rfl, h2⟩
      · exact Or.inl h2
      · exact Or.inr ⟨rfl, blt_trans h1 h2⟩

theorem blt_asymm : ∀ {a b : Bytes}, blt a b = true → blt b a = false
  | [], [], h => by simp [blt] at h
  | [], _ :: _, _ => rfl
  | _ :: _, [], h => by simp [blt] at h
  | x :: xs, y :: ys, h => by
    simp only [blt, Bool.or_eq_true, decide_eq_true_eq, Bool.and_eq_true, beq_iff_eq,
      Bool.or_eq_false_iff, decide_eq_false_iff_not, Bool.and_eq_false_iff] at *
    rcases h with h | ⟨rfl, h⟩
    · refine ⟨u8_lt_asymm h, Or.inl ?_⟩
      simp only [beq_eq_false_iff_ne, ne_eq]
      intro e; subst e; exact u8_lt_irrefl _ h
    · exact ⟨u8_lt_irrefl _, Or.inr (blt_asymm h)⟩

theorem blt_trichotomy : ∀ (a b : Bytes), blt a b = true ∨ a = b ∨ blt b a = true
  | [], [] => Or.inr (Or.inl rfl)
  | [], _ :: _ => Or.inl rfl
  | _ :: _, [] => Or.inr (Or.inr rfl)
  | x :: xs, y :: ys => by
    simp only [blt, Bool.or_eq_true, decide_eq_true_eq, Bool.and_eq_true, beq_iff_eq]
    rcases u8_trichotomy x y with h | rfl | h
    · exact Or.inl (Or.inl h)
    · rcases blt_trichotomy xs ys with h | rfl | h
      · exact Or.inl (Or.inr ⟨rfl, h⟩)
      · exact Or.inr (Or.inl rfl)
      · exact Or.inr (Or.inr (Or.inr ⟨rfl, h⟩))
    · exact Or.inr (Or.inr (Or.inl h))

/-- a common prefix does not matter -/
theorem blt_append_left (p a b : Bytes) : blt (p ++ a) (p ++ b) = blt a b := by
  induction p with
  | nil => rfl
  | cons x xs ih =>
    have : ¬ x < x := u8_lt_irrefl x
    simp [blt, ih, this]

/-- equal-length heads decide first -/
theorem blt_append_of_length_eq : ∀ (a b x y : Bytes), a.length = b.length →
    blt (a ++ x) (b ++ y) = (blt a b || (a == b && blt x y))
  | [], [], x, y, _ => by simp [blt]
  | [], _ :: _, _, _, h => by simp at h
  | _ :: _, [], _, _, h => by simp at h
  | a :: as, b :: bs, x, y, h => by
    have ih := blt_append_of_length_eq as bs x y (by simpa using h)
    simp only [List.cons_append, blt, ih]
    by_cases hab : a = b
    · subst hab
      have : ¬ a < a := u8_lt_irrefl a
      simp [this]
    · have h1 : (a :: as == b :: bs) = false := by simp [hab]
      have h2 : (a == b) = false := by simp [hab]
      simp [h1, h2]

/-! ## `compsLt` -/

theorem compsLt_irrefl (a : List Bytes) : compsLt a a = false := by
  induction a with
  | nil => rfl
  | cons x xs ih => simp [compsLt, ih, blt_irrefl]

theorem compsLt_trans : ∀ {a b c : List Bytes}, compsLt a b = true → compsLt b c = true →
    compsLt a c = true
  | [], [], _, h, _ => by simp [compsLt] at h
  | [], _ :: _, [], _, h => by simp [compsLt] at h
  | [], _ :: _, _ :: _, _, _ => rfl
  | _ :: _, [], _, h, _ => by simp [compsLt] at h
  | _ :: _, _ :: _, [], _, h => by simp [compsLt] at h
  | x :: xs, y :: ys, z :: zs, h1, h2 => by
    simp only [compsLt, Bool.or_eq_true, Bool.and_eq_true, beq_iff_eq] at *
    rcases h1 with h1 | ⟨rfl, h1⟩
    · rcases h2 with h2 | ⟨rfl, _⟩
      · exact Or.inl (blt_trans h1 h2)
      · exact Or.inl h1
    · rcases h2 with h2 | ⟨rfl, h2⟩
      · exact Or.inl h2
      · exact Or.inr ⟨rfl, compsLt_trans h1 h2⟩

theorem compsLt_asymm : ∀ {a b : List Bytes}, compsLt a b = true → compsLt b a = false
  | [], [], h => by simp [compsLt] at h
  | [], _ :: _, _ => rfl
  | _ :: _, [], h => by simp [compsLt] at h
  | x :: xs, y :: ys, h => by
    simp only [compsLt, Bool.or_eq_true, Bool.and_eq_true, beq_iff_eq,
      Bool.or_eq_false_iff, Bool.and_eq_false_iff] at *
    rcases h with h | ⟨rfl, h⟩
    · refine ⟨blt_asymm h, Or.inl ?_⟩
      simp only [beq_eq_false_iff_ne, ne_eq]
      intro e; subst e; rw [blt_irrefl] at h; cases h
    · exact ⟨blt_irrefl _, Or.inr (compsLt_asymm h)⟩

theorem compsLt_trichotomy : ∀ (a b : List Bytes), compsLt a b = true ∨ a = b ∨ compsLt b a = true
  | [], [] => Or.inr (Or.inl rfl)
  | [], _ :: _ => Or.inl rfl
  | _ :: _, [] => Or.inr (Or.inr rfl)
  | x :: xs, y :: ys => by
    simp only [compsLt, Bool.or_eq_true, Bool.and_eq_true, beq_iff_eq]
    rcases blt_trichotomy x y with h | rfl | h
    · exact Or.inl (Or.inl h)
    · rcases compsLt_trichotomy xs ys with h | rfl | h
      · exact Or.inl (Or.inr ⟨rfl, h⟩)
      · exact Or.inr (Or.inl rfl)
      · exact Or.inr (Or.inr (Or.inr ⟨rfl, h⟩))
    · exact Or.inr (Or.inr (Or.inl h))

/-! ## big-endian bytes -/

theorem be_length (k n : Nat) : (be k n).length = k := by
  induction k generalizing n with
  | zero => rfl
  | succ k ih => simp [be, ih]

theorem pow256_pos (k : Nat) : 0 < 256 ^ k := Nat.pow_pos (by decide)

theorem unbe_be (k n : Nat) (h : n < 256 ^ k) : unbe (be k n) = n := by
  induction k generalizing n with
  | zero => simp [be, unbe] at *; omega
  | succ k ih =>
    have hp := pow256_pos k
    have hq : n / 256 ^ k < 256 := by
      rw [Nat.div_lt_iff_lt_mul hp]; rw [Nat.pow_succ] at h; omega
    have hm : n % 256 ^ k < 256 ^ k := Nat.mod_lt _ hp
    simp only [be, unbe, be_length]
    rw [ih _ hm, Nat.mod_eq_of_lt hq]
    have : (UInt8.ofNat (n / 256 ^ k)).toNat = n / 256 ^ k := by
      simp [UInt8.toNat_ofNat', Nat.mod_eq_of_lt hq]
    rw [this]
    have := Nat.div_add_mod n (256 ^ k)
    rw [Nat.mul_comm] at this
    exact this

theorem unbe_lt (bs : Bytes) : unbe bs < 256 ^ bs.length := by
  induction bs with
  | nil => simp [unbe]
  | cons b bs ih =>
    simp only [unbe, List.length_cons, Nat.pow_succ]
    have hb : b.toNat < 256 := b.toNat_lt
    have : b.toNat * 256 ^ bs.length + 256 ^ bs.length ≤ 256 * 256 ^ bs.length := by
      have : (b.toNat + 1) * 256 ^ bs.length ≤ 256 * 256 ^ bs.length :=
        Nat.mul_le_mul_right _ hb
      rw [Nat.add_mul] at this; omega
    omega

theorem be_unbe (bs : Bytes) : be bs.length (unbe bs) = bs := by
  induction bs with
  | nil => rfl
  | cons b bs ih =>
    have hp := pow256_pos bs.length
    have hl := unbe_lt bs
    simp only [List.length_cons, be, unbe]
    have h1 : (b.toNat * 256 ^ bs.length + unbe bs) / 256 ^ bs.length = b.toNat := by
      rw [Nat.mul_comm, Nat.mul_add_div hp, Nat.div_eq_of_lt hl]; rfl
    have h2 : (b.toNat * 256 ^ bs.length + unbe bs) % 256 ^ bs.length = unbe bs := by
      rw [Nat.mul_comm, Nat.mul_add_mod, Nat.mod_eq_of_lt hl]
    rw [h1, h2, ih]
    have : b.toNat % 256 = b.toNat := Nat.mod_eq_of_lt b.toNat_lt
    rw [this]
    simp

theorem be_inj {k n m : Nat} (hn : n < 256 ^ k) (hm : m < 256 ^ k) (h : be k n = be k m) :
    n = m := by
  have := congrArg unbe h
  rwa [unbe_be k n hn, unbe_be k m hm] at this

/-- big-endian encoding is strictly monotone -/
theorem be_mono (k n m : Nat) (hn : n < 256 ^ k) (hm : m < 256 ^ k) :
    blt (be k n) (be k m) = decide (n < m) := by
  induction k generalizing n m with
  | zero =>
    have : n = 0 := by simp at hn; omega
    have : m = 0 := by simp at hm; omega
    subst_vars; rfl
  | succ k ih =>
    have hp := pow256_pos k
    have hqn : n / 256 ^ k < 256 := by
      rw [Nat.div_lt_iff_lt_mul hp]; rw [Nat.pow_succ] at hn; omega
    have hqm : m / 256 ^ k < 256 := by
      rw [Nat.div_lt_iff_lt_mul hp]; rw [Nat.pow_succ] at hm; omega
    have hmn : n % 256 ^ k < 256 ^ k := Nat.mod_lt _ hp
    have hmm : m % 256 ^ k < 256 ^ k := Nat.mod_lt _ hp
    simp only [be, blt, ih _ _ hmn hmm]
    have e1 : (UInt8.ofNat (n / 256 ^ k % 256) < UInt8.ofNat (m / 256 ^ k % 256)) ↔
        n / 256 ^ k < m / 256 ^ k := by
      rw [UInt8.lt_iff_toNat_lt]
      simp [UInt8.toNat_ofNat', Nat.mod_eq_of_lt hqn, Nat.mod_eq_of_lt hqm]
    have e2 : (UInt8.ofNat (n / 256 ^ k % 256) == UInt8.ofNat (m / 256 ^ k % 256)) =
        decide (n / 256 ^ k = m / 256 ^ k) := by
      rw [Bool.eq_iff_iff]
      simp only [beq_iff_eq, decide_eq_true_eq]
      constructor
      · intro h
        have := congrArg UInt8.toNat h
        simpa [UInt8.toNat_ofNat', Nat.mod_eq_of_lt hqn, Nat.mod_eq_of_lt hqm] using this
      · intro h; rw [h]
    rw [e2]
    have dn := Nat.div_add_mod n (256 ^ k)
    have dm := Nat.div_add_mod m (256 ^ k)
    rw [Bool.eq_iff_iff]
    simp only [Bool.or_eq_true, decide_eq_true_eq, Bool.and_eq_true, e1]
    constructor
    · rintro (h | ⟨h1, h2⟩)
      · have : (n / 256 ^ k + 1) * 256 ^ k ≤ (m / 256 ^ k) * 256 ^ k := Nat.mul_le_mul_right _ h
        rw [Nat.add_mul] at this
        rw [Nat.mul_comm] at dn dm
        omega
      · rw [h1] at dn; omega
    · intro h
      rcases Nat.lt_trichotomy (n / 256 ^ k) (m / 256 ^ k) with h' | h' | h'
      · exact Or.inl h'
      · refine Or.inr ⟨h', ?_⟩
        rw [h'] at dn; omega
      · exfalso
        have : (m / 256 ^ k + 1) * 256 ^ k ≤ (n / 256 ^ k) * 256 ^ k := Nat.mul_le_mul_right _ h'
        rw [Nat.add_mul] at this
        rw [Nat.mul_comm] at dn dm
        omega

/-! ## the sign-bit flip -/

theorem two63_eq : two63 = 9223372036854775808 := by decide
theorem two64_eq : two64 = 18446744073709551616 := by decide
theorem pow256_8 : 256 ^ 8 = two64 := by decide

theorem testBit_two63_of_lt {n : Nat} (h : n < two63) : n.testBit 63 = false :=
  Nat.testBit_lt_two_pow (by rw [two63_eq] at h; omega)

theorem flip_lo {n : Nat} (h : n < two63) : flip n = n + two63 := by
  unfold flip
  have h63 : two63 = 2 ^ 63 := by decide
  have hor := Nat.two_pow_add_eq_or_of_lt (i := 63) (by rw [← h63]; exact h) 1
  rw [Nat.mul_one] at hor
  rw [h63, Nat.add_comm, hor]
  apply Nat.eq_of_testBit_eq
  intro j
  rw [Nat.testBit_xor, Nat.testBit_or, Nat.testBit_two_pow]
  by_cases hj : 63 = j
  · subst hj
    have := testBit_two63_of_lt h
    simp [this]
  · simp [hj]

theorem flip_hi {n : Nat} (h1 : two63 ≤ n) (h2 : n < two64) : flip n = n - two63 := by
  have hm : n - two63 < two63 := by rw [two64_eq] at h2; rw [two63_eq] at *; omega
  have e : n = (n - two63) + two63 := by omega
  have hf := flip_lo hm
  unfold flip at *
  conv => lhs; rw [e, ← hf]
  rw [Nat.xor_assoc, Nat.xor_self, Nat.xor_zero]

theorem flip_lt {n : Nat} (h : n < two64) : flip n < two64 := by
  by_cases h1 : n < two63
  · rw [flip_lo h1]; rw [two64_eq] at *; rw [two63_eq] at *; omega
  · rw [flip_hi (by omega) h]; omega

theorem flip_flip (n : Nat) : flip (flip n) = n := by
  unfold flip; rw [Nat.xor_assoc, Nat.xor_self, Nat.xor_zero]

theorem toU64_lt (i : Int) : toU64 i < two64 := by
  unfold toU64
  have : (0 : Int) < (two64 : Int) := by rw [two64_eq]; decide
  have h1 := Int.emod_lt_of_pos i this
  have h0 := Int.emod_nonneg i (Int.ne_of_gt this)
  omega

theorem toU64_nonneg {i : Int} (h0 : 0 ≤ i) (h : isI64 i) : toU64 i = i.toNat := by
  unfold toU64
  have : i % (two64 : Int) = i := Int.emod_eq_of_lt h0 (by
    have := h.2; rw [two64_eq]; rw [two63_eq] at this; omega)
  rw [this]

theorem toU64_neg {i : Int} (h0 : i < 0) (h : isI64 i) : toU64 i = (i + (two64 : Int)).toNat := by
  unfold toU64
  have h1 := h.1
  rw [two63_eq] at h1
  have : i % (two64 : Int) = i + (two64 : Int) := by
    rw [← Int.add_emod_right]
    exact Int.emod_eq_of_lt (by rw [two64_eq]; omega) (by omega)
  rw [this]

/-- the flipped bit pattern of an `i64` is `i + 2^63`: order-preserving -/
theorem flip_toU64 {i : Int} (h : isI64 i) : (flip (toU64 i) : Int) = i + (two63 : Int) := by
  have h1 := h.1; have h2 := h.2
  by_cases h0 : 0 ≤ i
  · rw [toU64_nonneg h0 h]
    have : i.toNat < two63 := by omega
    rw [flip_lo this]; omega
  · have h0' : i < 0 := by omega
    rw [toU64_neg h0' h]
    have hb : two63 ≤ (i + (two64 : Int)).toNat := by rw [two64_eq]; rw [two63_eq] at *; omega
    have hc : (i + (two64 : Int)).toNat < two64 := by omega
    rw [flip_hi hb hc]
    rw [two64_eq] at *; rw [two63_eq] at *; omega

theorem ofU64_flip_flip_toU64 {i : Int} (h : isI64 i) : ofU64 (flip (flip (toU64 i))) = i := by
  rw [flip_flip]
  have h1 := h.1; have h2 := h.2
  unfold ofU64
  by_cases h0 : 0 ≤ i
  · rw [toU64_nonneg h0 h]
    have : i.toNat < two63 := by omega
    simp [this]; omega
  · have h0' : i < 0 := by omega
    rw [toU64_neg h0' h]
    have hb : ¬ (i + (two64 : Int)).toNat < two63 := by rw [two64_eq]; rw [two63_eq] at *; omega
    simp only [hb, if_false]
    rw [two64_eq] at *; rw [two63_eq] at *; omega

theorem intBytes_length (i : Int) : (intBytes i).length = 8 := be_length _ _

theorem intOfBytes_intBytes {i : Int} (h : isI64 i) : intOfBytes (intBytes i) = i := by
  unfold intOfBytes intBytes
  rw [unbe_be 8 _ (by rw [pow256_8]; exact flip_lt (toU64_lt i))]
  exact ofU64_flip_flip_toU64 h

/-- the heart of the matter: signed order = byte order of the stored 8 bytes -/
theorem intBytes_mono {a b : Int} (ha : isI64 a) (hb : isI64 b) :
    blt (intBytes a) (intBytes b) = decide (a < b) := by
  unfold intBytes
  rw [be_mono 8 _ _ (by rw [pow256_8]; exact flip_lt (toU64_lt a))
    (by rw [pow256_8]; exact flip_lt (toU64_lt b))]
  have fa := flip_toU64 ha
  have fb := flip_toU64 hb
  rw [Bool.eq_iff_iff]; simp only [decide_eq_true_eq]
  omega

theorem intBytes_inj {a b : Int} (ha : isI64 a) (hb : isI64 b) (h : intBytes a = intBytes b) :
    a = b := by
  have := congrArg intOfBytes h
  rwa [intOfBytes_intBytes ha, intOfBytes_intBytes hb] at this

/-! ## validity helpers -/

theorem isAlpha_ascii {b : UInt8} (h : isAlpha b = true) : b ≤ 0x7F := by
  unfold isAlpha at h
  simp only [Bool.or_eq_true, Bool.and_eq_true, decide_eq_true_eq] at h
  rw [UInt8.le_iff_toNat_le] at *
  rcases h with ⟨h1, h2⟩ | ⟨h1, h2⟩ <;> rw [UInt8.le_iff_toNat_le] at * <;>
    simp at * <;> omega

theorem tailOk_ascii {b : UInt8} (h : tailOk b = true) : b ≤ 0x7F := by
  unfold tailOk isAlnum at h
  simp only [Bool.or_eq_true, Bool.and_eq_true, decide_eq_true_eq, beq_iff_eq] at h
  rcases h with (h | ⟨h1, h2⟩) | h
  · exact isAlpha_ascii h
  · rw [UInt8.le_iff_toNat_le] at *; simp at *; omega
  · subst h; decide

theorem utf8Valid_of_ascii : ∀ (s : Bytes), (∀ b ∈ s, b ≤ 0x7F) → utf8Valid s = true
  | [], _ => rfl
  | b :: rest, h => by
    have hb : b ≤ 0x7F := h b (by simp)
    unfold utf8Valid
    simp only [hb, if_true]
    exact utf8Valid_of_ascii rest (fun x hx => h x (by simp [hx]))

theorem identOk_utf8 {s : Bytes} (h : identOk s = true) : utf8Valid s = true := by
  cases s with
  | nil => simp [identOk] at h
  | cons b rest =>
    simp only [identOk, Bool.and_eq_true, List.all_eq_true] at h
    apply utf8Valid_of_ascii
    intro x hx
    rcases List.mem_cons.mp hx with rfl | hx
    · exact isAlpha_ascii h.1
    · exact tailOk_ascii (h.2 x hx)

end AranyaV.FactKey
