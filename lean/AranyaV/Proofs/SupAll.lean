import AranyaV.Proofs.CompileDefs
/-!
Every construct of the fragment is covered by the simulation: `supE` / `supS` hold for all syntax.
-/
namespace AranyaV.Lang

mutual
theorem supE_all : ∀ e : Expr, supE e = true
  | .unit | .int _ | .str _ | .bool _ | .none | .todo | .var _ | .enumRef _ _ _ => by simp [supE]
  | .some e | .ok e | .err e | .not e | .ret e => by simp [supE, supE_all e]
  | .is e _ | .dot e _ | .cast e _ | .substruct e _ => by simp [supE, supE_all e]
  | .and a b | .or a b | .coalesce a b => by simp [supE, supE_all a, supE_all b]
  | .eq a b | .ne a b | .gt a b | .lt a b | .ge a b | .le a b => by simp [supE, supE_all a, supE_all b]
  | .ite c t f => by simp [supE, supE_all c, supE_all t, supE_all f]
  | .call _ args => by simp [supE, supArgs_all args]
  | .ffi _ _ _ args => by simp [supE, supArgs_all args]
  | .struct _ fields _ => by simp [supE, supFields_all fields]
  | .block ss e => by simp [supE, supSs_all ss, supE_all e]
  | .mtch scrut arms => by simp [supE, supE_all scrut, supArmsE_all arms]
theorem supArgs_all : ∀ es : List Expr, supArgs es = true
  | [] => by simp [supArgs]
  | e :: es => by simp [supArgs, supE_all e, supArgs_all es]
theorem supFields_all : ∀ fs : List (Nat × Expr), supFields fs = true
  | [] => by simp [supFields]
  | (_, e) :: rest => by simp [supFields, supE_all e, supFields_all rest]
theorem supPat_all : ∀ p : Pat, supPat p = true
  | .default => by simp [supPat]
  | .values vs => by simp [supPat, supArgs_all vs]
theorem supArmsE_all : ∀ arms : List (Pat × Expr), supArmsE arms = true
  | [] => by simp [supArmsE]
  | (p, e) :: rest => by simp [supArmsE, supPat_all p, supE_all e, supArmsE_all rest]
theorem supArmsS_all : ∀ arms : List (Pat × List Stmt), supArmsS arms = true
  | [] => by simp [supArmsS]
  | (p, ss) :: rest => by simp [supArmsS, supPat_all p, supSs_all ss, supArmsS_all rest]
theorem supS_all : ∀ s : Stmt, supS s = true
  | .let_ _ e => by simp [supS, supE_all e]
  | .check c els => by simp [supS, supE_all c, supE_all els]
  | .ifS brs hasElse els => by simp [supS, supBrs_all brs, supSs_all els]
  | .ret e => by simp [supS, supE_all e]
  | .dassert e => by simp [supS, supE_all e]
  | .mtch scrut arms => by simp [supS, supE_all scrut, supArmsS_all arms]
theorem supSs_all : ∀ ss : List Stmt, supSs ss = true
  | [] => by simp [supSs]
  | s :: ss => by simp [supSs, supS_all s, supSs_all ss]
theorem supBrs_all : ∀ brs : List (Expr × List Stmt), supBrs brs = true
  | [] => by simp [supBrs]
  | (c, ss) :: rest => by simp [supBrs, supE_all c, supSs_all ss, supBrs_all rest]
end

end AranyaV.Lang
